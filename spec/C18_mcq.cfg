CONSTANTS NodeId0 = 5  Walk = FALSE  WalkLen = 0
CONSTANT Ident <- ID  Letters <- LQuick  ProbeLetters <- PL
INIT Init
NEXT Next
VIEW ViewM
INVARIANT InvC18
