CONSTANTS NodeId = 5  HbInit = 0  Walk = TRUE  WalkLen = 40  EvCap = 3  PoolN = 16
CONSTANT Letters <- L11  HcInit <- HC11  ProbeLetters <- P11
INIT Init
NEXT Next

CONSTRAINT EmitWalk

