---------------------------- MODULE CoTmrPreTrace ----------------------------
(***************************************************************************)
(* C07 / C08, direction code -> spec: validates a trace RECORDED from the  *)
(* real timer manager (harness/tmr_trace.c: PRNG driver, pool up to 16,    *)
(* tick interrupts injected with probability 1/3 at every COTmrLock entry, *)
(* COTmrUnlock exit and inside action callbacks) against the sub-step      *)
(* model: every recorded event must be explained by the corresponding      *)
(* operator of CoTmr / CoTmrPre, and the logged scalar state (hardware     *)
(* counter, list lengths) must equal the model's after every event.        *)
(* Events: call_create/ret_create, call_delete/ret_delete,                 *)
(* call_process/ret_process, cs (a critical section was left), cb (an      *)
(* action callback runs), service (tick interrupt).                        *)
(***************************************************************************)
EXTENDS CoTmr, TLC, Json, IOUtils
TraceLog == ndJsonDeserialize(IOEnv.TRACE)
VARIABLES t, pc, l
Idle == [op |-> "idle", a |-> 0, b |-> 0, done |-> FALSE, ret |-> 0, chain |-> <<>>, cur |-> -1]
TInit == t = TmrInit /\ pc = Idle /\ l = 1
Ev == TraceLog[l]
Proj(tt) == Ev.hw = tt.hw /\ Ev.nu = Len(tt.use) /\ Ev.ne = Len(tt.elapsed) /\ Ev.nf = tt.nFreeT

Call(op) == /\ Ev.e = "call_" \o op /\ pc.op = "idle" /\ Proj(t)
            /\ pc' = [Idle EXCEPT !.op = op, !.a = Ev.a, !.b = Ev.b] /\ t' = t
\* which free slot the implementation hands out is its own business: any free id is allowed here,
\* the following ret_create event says which one it was
CreateId(tt, start0, cycle, id) ==
  LET start == IF start0 = 0 THEN cycle ELSE start0
      t1 == [tt EXCEPT !.freeA = SelectSeq(@, LAMBDA x : x # id), !.cyc[id] = cycle]
  IN Insert(t1, start, id)
CsCreate == /\ Ev.e = "cs" /\ pc.op = "create" /\ ~pc.done
            /\ IF t.freeA = <<>> THEN t' = t /\ Proj(t) /\ pc' = [pc EXCEPT !.done = TRUE, !.ret = -1]
               ELSE \E k \in 1..Len(t.freeA) : LET st == CreateId(t, pc.a, pc.b, t.freeA[k]) IN
                      t' = st /\ Proj(st) /\ pc' = [pc EXCEPT !.done = TRUE, !.ret = t.freeA[k]]
CsDelete == /\ Ev.e = "cs" /\ pc.op = "delete" /\ ~pc.done
            /\ LET r == Delete(t, pc.a) IN t' = r.st /\ Proj(r.st) /\ pc' = [pc EXCEPT !.done = TRUE, !.ret = r.ret]
ProcPop  == /\ Ev.e = "cs" /\ pc.op = "process" /\ pc.cur = -1 /\ pc.chain = <<>> /\ t.elapsed # <<>>
            /\ t' = [t EXCEPT !.elapsed = Tail(@), !.nFreeT = @ + 1] /\ Proj(t')
            /\ pc' = [pc EXCEPT !.chain = Head(t.elapsed)]
ProcAct  == /\ Ev.e = "cs" /\ pc.op = "process" /\ pc.cur = -1 /\ pc.chain # <<>>
            /\ LET id == Head(pc.chain) IN
               /\ t' = IF t.cyc[id] = 0 THEN [t EXCEPT !.freeA = <<id>> \o @] ELSE Insert(t, t.cyc[id], id)
               /\ Proj(t') /\ pc' = [pc EXCEPT !.chain = Tail(@), !.cur = id]
ProcCb   == /\ Ev.e = "cb" /\ pc.op = "process" /\ pc.cur = Ev.a /\ Proj(t)
            /\ pc' = [pc EXCEPT !.cur = -1] /\ t' = t
RetCreate == /\ Ev.e = "ret_create" /\ pc.op = "create" /\ Proj(t)
             /\ IF pc.done THEN Ev.ret = pc.ret ELSE (Ev.ret = -1 /\ pc.a = 0 /\ pc.b = 0)
             /\ pc' = Idle /\ t' = t
RetDelete == /\ Ev.e = "ret_delete" /\ pc.op = "delete" /\ Proj(t)
             /\ IF pc.done THEN Ev.ret = pc.ret ELSE (Ev.ret = -1 /\ pc.a \notin Ids)
             /\ pc' = Idle /\ t' = t
RetProcess == /\ Ev.e = "ret_process" /\ pc.op = "process" /\ pc.cur = -1 /\ pc.chain = <<>> /\ t.elapsed = <<>> /\ Proj(t)
              /\ pc' = Idle /\ t' = t
TTick == /\ Ev.e = "service"
        /\ LET r == Service(t) IN t' = r.st /\ Ev.ret = r.ret /\ Proj(r.st)
        /\ pc' = pc
TNext == l <= Len(TraceLog) /\ l' = l + 1 /\
         (Call("create") \/ Call("delete") \/ Call("process") \/ CsCreate \/ CsDelete \/ ProcPop \/ ProcAct \/ ProcCb
          \/ RetCreate \/ RetDelete \/ RetProcess \/ TTick)
TSpec == TInit /\ [][TNext]_<<t, pc, l>>
Accepted == TLCGet("stats").diameter - 1 = Len(TraceLog)
\* pool conservation incl. the chain held by a running COTmrProcess (C08), checked at every recorded event
InvPool ==
  /\ t.nFreeT >= 0
  /\ t.nFreeT + Len(t.use) + Len(t.elapsed) = Max
  /\ Len(t.freeA) + SumLen(UseActs(t)) + SumLen(t.elapsed) + Len(pc.chain) = Max
=============================================================================
