CONSTANTS NodeId = 5  HbInit = 2  Walk = TRUE  WalkLen = 40  EvCap = 3  PoolN = 16
CONSTANT Letters <- L09  HcInit <- HC09  ProbeLetters <- P09
INIT Init
NEXT Next

CONSTRAINT EmitWalk

