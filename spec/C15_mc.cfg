CONSTANTS NodeId = 5  Depth = 2  Walk = FALSE  WalkLen = 0
CONSTANT Tbl <- T4  Letters <- LE4  ProbeLetters <- PE
INIT Init
NEXT Next
VIEW ViewM
INVARIANT InvC15
