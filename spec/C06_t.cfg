CONSTANT U <- UX  Probes <- PQ  AccDict <- AccX  NodeIds <- AllNodeIds
CONSTANTS Lens = {0, 1, 2, 3, 4, 5, 6, 7, 8, 254, 255, 256, 257, 299, 300, 301, 512, 889, 1000, 3999, 4000, 4001}  Bases = {1, 200, 77}  ValMode = "x"
INIT Init
NEXT Next
