------------------------------ MODULE CoTmrPre ------------------------------
(***************************************************************************)
(* C08: the timer manager under interrupt preemption and deferred          *)
(* processing.  COTmrService runs in interrupt context and may preempt the *)
(* task-level calls anywhere outside the COTmrLock/COTmrUnlock critical    *)
(* sections.  COTmrCreate and COTmrDelete are argument checks plus ONE     *)
(* critical section; COTmrProcess is split into its sub-steps:             *)
(*   PPop   lock; pop the newest elapsed event, free its slot; unlock      *)
(*   PAct   lock; free a one-shot / re-insert a cyclic action; unlock      *)
(*   PCall  the action's callback (runs unlocked)                          *)
(*   PEnd   loop test `Elapsed == 0' succeeds                              *)
(* pc = [active, chain, cur]: the event's remaining actions and the action *)
(* whose callback is about to run, exactly the locals of the C function.   *)
(* The same sub-step function PNext drives (i) the interleaving model that *)
(* TLC checks and (ii) the deterministic fold RunProc(t, sched) that       *)
(* predicts one COTmrProcess call under an injection schedule `sched'      *)
(* (number of tick interrupts at each successive lock-entry / unlock-exit  *)
(* boundary), which is what the harness replays.                           *)
(***************************************************************************)
EXTENDS CoTmr

PcIdle == [active |-> FALSE, chain |-> <<>>, cur |-> -1]

PKind(t, pc) ==
  IF pc.cur >= 0 THEN "call"
  ELSE IF pc.chain # <<>> THEN "act"
  ELSE IF t.elapsed # <<>> THEN "pop" ELSE "end"

\* one task-level sub-step of COTmrProcess: [t, pc, fire]  (fire = id or -1)
PNext(t, pc) ==
  LET k == PKind(t, pc) IN
  IF k = "call" THEN [t |-> t, pc |-> [pc EXCEPT !.cur = -1], fire |-> pc.cur]
  ELSE IF k = "act" THEN
       LET id == Head(pc.chain) IN
       [t |-> IF t.cyc[id] = 0 THEN [t EXCEPT !.freeA = <<id>> \o @] ELSE Insert(t, t.cyc[id], id),
        pc |-> [pc EXCEPT !.chain = Tail(@), !.cur = id], fire |-> -1]
  ELSE IF k = "pop" THEN
       [t |-> [t EXCEPT !.elapsed = Tail(@), !.nFreeT = @ + 1],
        pc |-> [pc EXCEPT !.chain = Head(t.elapsed)], fire |-> -1]
  ELSE [t |-> t, pc |-> PcIdle, fire |-> -1]

\* n tick interrupts: [t, rets]
RECURSIVE Ticks(_, _, _)
Ticks(t, n, rets) == IF n = 0 THEN [t |-> t, rets |-> rets]
                     ELSE LET s == Service(t) IN Ticks(s.st, n-1, Append(rets, s.ret))
Hd(s) == IF s = <<>> THEN 0 ELSE Head(s)
Tl(s) == IF s = <<>> THEN <<>> ELSE Tail(s)

\* One critical section `cs' (a function t -> result record with field st)
\* bracketed by the two injection boundaries: [t, sched, obs]
\* obs items: <<"isvc", r>> per injected tick, in order.
IsvcItems(rets) == [k \in 1..Len(rets) |-> <<"isvc", rets[k]>>]

\* COTmrProcess under schedule sched -> [t, obs]
RECURSIVE RunProc(_, _, _, _)
RunProc(t, pc, sched, obs) ==
  LET k == PKind(t, pc) IN
  IF k = "end" THEN [t |-> t, obs |-> obs]
  ELSE IF k = "call"
       THEN LET n == PNext(t, pc) IN RunProc(n.t, n.pc, sched, Append(obs, <<"fire", n.fire>>))
       ELSE LET a == Ticks(t, Hd(sched), <<>>)              \* lock entry
                n == PNext(a.t, pc)                         \* the critical section
                b == Ticks(n.t, Hd(Tl(sched)), <<>>)        \* unlock exit
            IN RunProc(b.t, n.pc, Tl(Tl(sched)), obs \o IsvcItems(a.rets) \o IsvcItems(b.rets))
Proc(t, sched) == RunProc(t, [PcIdle EXCEPT !.active = TRUE], sched, <<>>)

\* COTmrCreate / COTmrDelete under a two-element schedule -> [t, ret, obs]
CreateInj(t, s, c, sched) ==
  IF (s = 0 /\ c = 0) THEN [t |-> t, ret |-> -1, obs |-> <<>>]     \* refused before the lock
  ELSE LET a == Ticks(t, Hd(sched), <<>>)
           r == Create(a.t, s, c)
           b == Ticks(r.st, Hd(Tl(sched)), <<>>)
       IN [t |-> b.t, ret |-> r.ret, obs |-> IsvcItems(a.rets) \o IsvcItems(b.rets)]
DeleteInj(t, id, sched) ==
  IF id \notin Ids THEN [t |-> t, ret |-> -1, obs |-> <<>>]
  ELSE LET a == Ticks(t, Hd(sched), <<>>)
           r == Delete(a.t, id)
           b == Ticks(r.st, Hd(Tl(sched)), <<>>)
       IN [t |-> b.t, ret |-> r.ret, obs |-> IsvcItems(a.rets) \o IsvcItems(b.rets)]

\* pool conservation including the chain held by a running COTmrProcess
PoolOKPre(t, pc) ==
  /\ t.nFreeT >= 0
  /\ t.nFreeT + Len(t.use) + Len(t.elapsed) = Max
  /\ Len(t.freeA) + SumLen(UseActs(t)) + SumLen(t.elapsed) + Len(pc.chain) = Max
  /\ (t.use = <<>>) <=> (t.hw = 0)
  /\ \A k \in 1..Len(t.use) : t.use[k].acts # <<>>
  /\ \A k \in 1..Len(t.elapsed) : t.elapsed[k] # <<>>
=============================================================================
