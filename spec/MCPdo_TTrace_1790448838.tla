---- MODULE MCPdo_TTrace_1790448838 ----
EXTENDS Sequences, TLCExt, Toolbox, MCPdo, Naturals, TLC

_expression ==
    LET MCPdo_TEExpression == INSTANCE MCPdo_TEExpression
    IN MCPdo_TEExpression!expression
----

_trace ==
    LET MCPdo_TETrace == INSTANCE MCPdo_TETrace
    IN MCPdo_TETrace!trace
----

_inv ==
    ~(
        TLCGet("level") = Len(_TETrace)
        /\
        p = ([v |-> [r |-> <<9>>, w |-> <<3, 4>>, a |-> <<1>>, b |-> <<2>>, l |-> <<5, 6, 7, 8>>, n |-> <<10>>, W |-> <<0, 0>>, L |-> <<0, 0, 0, 0>>], tc |-> <<[m |-> <<<<8, 0, 0, 33>>, <<0, 0, 0, 0>>, <<0, 0, 0, 0>>, <<0, 0, 0, 0>>>>, n |-> 1, off |-> FALSE, id |-> 389, type |-> 254, inh |-> 20, evt |-> 3, rtr |-> TRUE, ext |-> FALSE]>>, rc |-> <<[m |-> <<<<8, 0, 1, 33>>, <<0, 0, 0, 0>>, <<0, 0, 0, 0>>, <<0, 0, 0, 0>>>>, n |-> 1, off |-> FALSE, id |-> 517, type |-> 254, inh |-> 0, evt |-> 0, rtr |-> FALSE, ext |-> FALSE]>>, scycus |-> 0, mode |-> 2, td |-> <<[inhRem |-> 0, evRem |-> 0, pend |-> FALSE, scnt |-> 0]>>, sprod |-> 0, ta |-> <<[map |-> <<>>, id |-> 0, type |-> 0, valid |-> FALSE, inhT |-> 0, evT |-> 0]>>, ra |-> <<[map |-> <<>>, id |-> 0, valid |-> FALSE, sync |-> FALSE]>>, rb |-> <<<<>>>>, sgen |-> FALSE, scyc |-> 0, hbRem |-> 0, hbT |-> 0, sid |-> 128])
        /\
        gh = (FALSE)
        /\
        hist = (<<[x |-> <<<<"free">>>>, e |-> <<"rx", 0, 2, 130, 5, 0, 0, 0, 0, 0, 0>>]>>)
        /\
        prev = ([v |-> [r |-> <<9>>, w |-> <<3, 4>>, a |-> <<1>>, b |-> <<2>>, l |-> <<5, 6, 7, 8>>, n |-> <<10>>, W |-> <<0, 0>>, L |-> <<0, 0, 0, 0>>], tc |-> <<[m |-> <<<<8, 0, 0, 33>>, <<0, 0, 0, 0>>, <<0, 0, 0, 0>>, <<0, 0, 0, 0>>>>, n |-> 1, off |-> FALSE, id |-> 389, type |-> 254, inh |-> 20, evt |-> 3, rtr |-> TRUE, ext |-> FALSE]>>, rc |-> <<[m |-> <<<<8, 0, 1, 33>>, <<0, 0, 0, 0>>, <<0, 0, 0, 0>>, <<0, 0, 0, 0>>>>, n |-> 1, off |-> FALSE, id |-> 517, type |-> 254, inh |-> 0, evt |-> 0, rtr |-> FALSE, ext |-> FALSE]>>, scycus |-> 0, mode |-> 2, td |-> <<[inhRem |-> 0, evRem |-> 0, pend |-> FALSE, scnt |-> 0]>>, sprod |-> 0, ta |-> <<[map |-> <<>>, id |-> 0, type |-> 0, valid |-> FALSE, inhT |-> 0, evT |-> 0]>>, ra |-> <<[map |-> <<>>, id |-> 0, valid |-> FALSE, sync |-> FALSE]>>, rb |-> <<<<>>>>, sgen |-> FALSE, scyc |-> 0, hbRem |-> 0, hbT |-> 0, sid |-> 128])
    )
----

_init ==
    /\ p = _TETrace[1].p
    /\ prev = _TETrace[1].prev
    /\ gh = _TETrace[1].gh
    /\ hist = _TETrace[1].hist
----

_next ==
    /\ \E i,j \in DOMAIN _TETrace:
        /\ \/ /\ j = i + 1
              /\ i = TLCGet("level")
        /\ p  = _TETrace[i].p
        /\ p' = _TETrace[j].p
        /\ prev  = _TETrace[i].prev
        /\ prev' = _TETrace[j].prev
        /\ gh  = _TETrace[i].gh
        /\ gh' = _TETrace[j].gh
        /\ hist  = _TETrace[i].hist
        /\ hist' = _TETrace[j].hist

\* Uncomment the ASSUME below to write the states of the error trace
\* to the given file in Json format. Note that you can pass any tuple
\* to `JsonSerialize`. For example, a sub-sequence of _TETrace.
    \* ASSUME
    \*     LET J == INSTANCE Json
    \*         IN J!JsonSerialize("MCPdo_TTrace_1790448838.json", _TETrace)

=============================================================================

 Note that you can extract this module `MCPdo_TEExpression`
  to a dedicated file to reuse `expression` (the module in the 
  dedicated `MCPdo_TEExpression.tla` file takes precedence 
  over the module `MCPdo_TEExpression` below).

---- MODULE MCPdo_TEExpression ----
EXTENDS Sequences, TLCExt, Toolbox, MCPdo, Naturals, TLC

expression == 
    [
        \* To hide variables of the `MCPdo` spec from the error trace,
        \* remove the variables below.  The trace will be written in the order
        \* of the fields of this record.
        p |-> p
        ,prev |-> prev
        ,gh |-> gh
        ,hist |-> hist
        
        \* Put additional constant-, state-, and action-level expressions here:
        \* ,_stateNumber |-> _TEPosition
        \* ,_pUnchanged |-> p = p'
        
        \* Format the `p` variable as Json value.
        \* ,_pJson |->
        \*     LET J == INSTANCE Json
        \*     IN J!ToJson(p)
        
        \* Lastly, you may build expressions over arbitrary sets of states by
        \* leveraging the _TETrace operator.  For example, this is how to
        \* count the number of times a spec variable changed up to the current
        \* state in the trace.
        \* ,_pModCount |->
        \*     LET F[s \in DOMAIN _TETrace] ==
        \*         IF s = 1 THEN 0
        \*         ELSE IF _TETrace[s].p # _TETrace[s-1].p
        \*             THEN 1 + F[s-1] ELSE F[s-1]
        \*     IN F[_TEPosition - 1]
    ]

=============================================================================



Parsing and semantic processing can take forever if the trace below is long.
 In this case, it is advised to uncomment the module below to deserialize the
 trace from a generated binary file.

\*
\*---- MODULE MCPdo_TETrace ----
\*EXTENDS IOUtils, MCPdo, TLC
\*
\*trace == IODeserialize("MCPdo_TTrace_1790448838.bin", TRUE)
\*
\*=============================================================================
\*

---- MODULE MCPdo_TETrace ----
EXTENDS MCPdo, TLC

trace == 
    <<
    ([p |-> [v |-> [r |-> <<9>>, w |-> <<3, 4>>, a |-> <<1>>, b |-> <<2>>, l |-> <<5, 6, 7, 8>>, n |-> <<10>>, W |-> <<0, 0>>, L |-> <<0, 0, 0, 0>>], tc |-> <<[m |-> <<<<8, 0, 0, 33>>, <<0, 0, 0, 0>>, <<0, 0, 0, 0>>, <<0, 0, 0, 0>>>>, n |-> 1, off |-> FALSE, id |-> 389, type |-> 254, inh |-> 20, evt |-> 3, rtr |-> TRUE, ext |-> FALSE]>>, rc |-> <<[m |-> <<<<8, 0, 1, 33>>, <<0, 0, 0, 0>>, <<0, 0, 0, 0>>, <<0, 0, 0, 0>>>>, n |-> 1, off |-> FALSE, id |-> 517, type |-> 254, inh |-> 0, evt |-> 0, rtr |-> FALSE, ext |-> FALSE]>>, scycus |-> 0, mode |-> 2, td |-> <<[inhRem |-> 0, evRem |-> 0, pend |-> FALSE, scnt |-> 0]>>, sprod |-> 0, ta |-> <<[map |-> <<>>, id |-> 0, type |-> 0, valid |-> FALSE, inhT |-> 0, evT |-> 0]>>, ra |-> <<[map |-> <<>>, id |-> 0, valid |-> FALSE, sync |-> FALSE]>>, rb |-> <<<<>>>>, sgen |-> FALSE, scyc |-> 0, hbRem |-> 3, hbT |-> 3, sid |-> 128],gh |-> TRUE,hist |-> <<>>,prev |-> <<>>]),
    ([p |-> [v |-> [r |-> <<9>>, w |-> <<3, 4>>, a |-> <<1>>, b |-> <<2>>, l |-> <<5, 6, 7, 8>>, n |-> <<10>>, W |-> <<0, 0>>, L |-> <<0, 0, 0, 0>>], tc |-> <<[m |-> <<<<8, 0, 0, 33>>, <<0, 0, 0, 0>>, <<0, 0, 0, 0>>, <<0, 0, 0, 0>>>>, n |-> 1, off |-> FALSE, id |-> 389, type |-> 254, inh |-> 20, evt |-> 3, rtr |-> TRUE, ext |-> FALSE]>>, rc |-> <<[m |-> <<<<8, 0, 1, 33>>, <<0, 0, 0, 0>>, <<0, 0, 0, 0>>, <<0, 0, 0, 0>>>>, n |-> 1, off |-> FALSE, id |-> 517, type |-> 254, inh |-> 0, evt |-> 0, rtr |-> FALSE, ext |-> FALSE]>>, scycus |-> 0, mode |-> 2, td |-> <<[inhRem |-> 0, evRem |-> 0, pend |-> FALSE, scnt |-> 0]>>, sprod |-> 0, ta |-> <<[map |-> <<>>, id |-> 0, type |-> 0, valid |-> FALSE, inhT |-> 0, evT |-> 0]>>, ra |-> <<[map |-> <<>>, id |-> 0, valid |-> FALSE, sync |-> FALSE]>>, rb |-> <<<<>>>>, sgen |-> FALSE, scyc |-> 0, hbRem |-> 0, hbT |-> 0, sid |-> 128],gh |-> TRUE,hist |-> <<[x |-> <<<<"tx", 1413, 8, 96, 23, 16, 0, -1, -1, -1, -1>>>>, e |-> <<"rx", 1541, 8, 43, 23, 16, 0, 0, 0, 0, 0>>]>>,prev |-> [v |-> [r |-> <<9>>, w |-> <<3, 4>>, a |-> <<1>>, b |-> <<2>>, l |-> <<5, 6, 7, 8>>, n |-> <<10>>, W |-> <<0, 0>>, L |-> <<0, 0, 0, 0>>], tc |-> <<[m |-> <<<<8, 0, 0, 33>>, <<0, 0, 0, 0>>, <<0, 0, 0, 0>>, <<0, 0, 0, 0>>>>, n |-> 1, off |-> FALSE, id |-> 389, type |-> 254, inh |-> 20, evt |-> 3, rtr |-> TRUE, ext |-> FALSE]>>, rc |-> <<[m |-> <<<<8, 0, 1, 33>>, <<0, 0, 0, 0>>, <<0, 0, 0, 0>>, <<0, 0, 0, 0>>>>, n |-> 1, off |-> FALSE, id |-> 517, type |-> 254, inh |-> 0, evt |-> 0, rtr |-> FALSE, ext |-> FALSE]>>, scycus |-> 0, mode |-> 2, td |-> <<[inhRem |-> 0, evRem |-> 0, pend |-> FALSE, scnt |-> 0]>>, sprod |-> 0, ta |-> <<[map |-> <<>>, id |-> 0, type |-> 0, valid |-> FALSE, inhT |-> 0, evT |-> 0]>>, ra |-> <<[map |-> <<>>, id |-> 0, valid |-> FALSE, sync |-> FALSE]>>, rb |-> <<<<>>>>, sgen |-> FALSE, scyc |-> 0, hbRem |-> 3, hbT |-> 3, sid |-> 128]]),
    ([p |-> [v |-> [r |-> <<9>>, w |-> <<3, 4>>, a |-> <<1>>, b |-> <<2>>, l |-> <<5, 6, 7, 8>>, n |-> <<10>>, W |-> <<0, 0>>, L |-> <<0, 0, 0, 0>>], tc |-> <<[m |-> <<<<8, 0, 0, 33>>, <<0, 0, 0, 0>>, <<0, 0, 0, 0>>, <<0, 0, 0, 0>>>>, n |-> 1, off |-> FALSE, id |-> 389, type |-> 254, inh |-> 20, evt |-> 3, rtr |-> TRUE, ext |-> FALSE]>>, rc |-> <<[m |-> <<<<8, 0, 1, 33>>, <<0, 0, 0, 0>>, <<0, 0, 0, 0>>, <<0, 0, 0, 0>>>>, n |-> 1, off |-> FALSE, id |-> 517, type |-> 254, inh |-> 0, evt |-> 0, rtr |-> FALSE, ext |-> FALSE]>>, scycus |-> 0, mode |-> 2, td |-> <<[inhRem |-> 0, evRem |-> 0, pend |-> FALSE, scnt |-> 0]>>, sprod |-> 0, ta |-> <<[map |-> <<>>, id |-> 0, type |-> 0, valid |-> FALSE, inhT |-> 0, evT |-> 0]>>, ra |-> <<[map |-> <<>>, id |-> 0, valid |-> FALSE, sync |-> FALSE]>>, rb |-> <<<<>>>>, sgen |-> FALSE, scyc |-> 0, hbRem |-> 0, hbT |-> 0, sid |-> 128],gh |-> FALSE,hist |-> <<[x |-> <<<<"free">>>>, e |-> <<"rx", 0, 2, 130, 5, 0, 0, 0, 0, 0, 0>>]>>,prev |-> [v |-> [r |-> <<9>>, w |-> <<3, 4>>, a |-> <<1>>, b |-> <<2>>, l |-> <<5, 6, 7, 8>>, n |-> <<10>>, W |-> <<0, 0>>, L |-> <<0, 0, 0, 0>>], tc |-> <<[m |-> <<<<8, 0, 0, 33>>, <<0, 0, 0, 0>>, <<0, 0, 0, 0>>, <<0, 0, 0, 0>>>>, n |-> 1, off |-> FALSE, id |-> 389, type |-> 254, inh |-> 20, evt |-> 3, rtr |-> TRUE, ext |-> FALSE]>>, rc |-> <<[m |-> <<<<8, 0, 1, 33>>, <<0, 0, 0, 0>>, <<0, 0, 0, 0>>, <<0, 0, 0, 0>>>>, n |-> 1, off |-> FALSE, id |-> 517, type |-> 254, inh |-> 0, evt |-> 0, rtr |-> FALSE, ext |-> FALSE]>>, scycus |-> 0, mode |-> 2, td |-> <<[inhRem |-> 0, evRem |-> 0, pend |-> FALSE, scnt |-> 0]>>, sprod |-> 0, ta |-> <<[map |-> <<>>, id |-> 0, type |-> 0, valid |-> FALSE, inhT |-> 0, evT |-> 0]>>, ra |-> <<[map |-> <<>>, id |-> 0, valid |-> FALSE, sync |-> FALSE]>>, rb |-> <<<<>>>>, sgen |-> FALSE, scyc |-> 0, hbRem |-> 0, hbT |-> 0, sid |-> 128]])
    >>
----


=============================================================================

---- CONFIG MCPdo_TTrace_1790448838 ----
CONSTANTS
    NodeId = 5
    NT = 1
    NR = 1
    Walk = FALSE
    WalkLen = 0
    PoolN = 16
    CfgName = "C10P"
    Objs <- MCObjs
    ObjOrder <- MCOrder
    V0 <- MCV0
    TC0 <- TC10P
    RC0 <- RC12
    Sync0 <- S10P
    Letters <- L10P
    ProbeLetters <- P10P
    Probe2Letters <- PNone

INVARIANT
    _inv

CHECK_DEADLOCK
    \* CHECK_DEADLOCK off because of PROPERTY or INVARIANT above.
    FALSE

INIT
    _init

NEXT
    _next

CONSTANT
    _TETrace <- _trace

ALIAS
    _expression
=============================================================================
\* Generated on Sat Sep 26 18:54:00 UTC 2026