CONSTANTS NodeId = 5  Walk = FALSE  WalkLen = 0  CfgName = "D"
CONSTANT Groups <- GD  Dflt <- DB  Letters <- LD  ProbeLetters <- PP
INIT Init
NEXT Next
VIEW ViewM
INVARIANT InvC17
