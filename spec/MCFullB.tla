-------------------------------- MODULE MCFullB --------------------------------
(* second configuration of the product model: largest node id, SYNC producer on at boot, heartbeat producer off at boot,
   TPDO #1 of type 255 with an event time only, TPDO #2 synchronous on every SYNC, RPDO #1 synchronous, RPDO #2 asynchronous
   with a dummy entry, an EMCY table of 32 errors (letters on the identifiers 1, 8, 9 and the last one, 31) *)
EXTENDS MCFull
BTC == << TC(FALSE, 389, 255, 0, 2, 1, <<M("a", 8), Z4, Z4, Z4>>), TC(FALSE, 645, 1, 0, 0, 2, <<M("b", 8), M("w", 16), Z4, Z4>>) >>
BRC == << RC(FALSE, 517, 1, 1, <<M("b", 8), Z4, Z4, Z4>>), RC(FALSE, 773, 254, 2, <<<<8, 0, 5, 0>>, M("l", 32), Z4, Z4>>) >>
BSync == <<128, TRUE, 2000>>
BHc == << <<10, 3>>, <<0, 0>> >>
BTbl == [k \in 1..32 |-> <<(k * 3) % 8, 4096 + 256 * (k % 200) + k>>]        \* the whole table of CO_EMCY_N = 32 errors
BNmt == {<<"nmt", cs, t>> : cs \in {1, 2, 128}, t \in {0, 127}} \cup {<<"nmt", 1, 5>>, <<"nmt", 7, 127>>}
BStart == {<<"nmt", 1, 0>>, <<"nmt", 1, 127>>}
BReset == {<<"nmt", 130, 127>>, <<"nmt", 129, 0>>, <<"nmt", 130, 5>>}
BHb == {<<"N", <<"hb", nd, st>>>> : nd \in {10, 11}, st \in {5, 127}} \cup {<<"N", <<"hbev", 10>>>>, <<"N", <<"hblast", 10>>>>}
       \cup {<<"N", HcW(k, nd, t)>> : k \in {1, 2}, nd \in {10, 11}, t \in {0, 2}}
       \cup {<<"N", <<"sdowr", 4119, 0, <<t, 0>>>>>> : t \in {0, 2, 3}} \cup {<<"N", <<"sdord", 4119, 0>>>>, <<"N", <<"sdord", 4118, 2>>>>}
BPdo == {<<"P", <<"trig", 1>>>>, <<"P", <<"wr", "a", <<7>>>>>>, <<"P", <<"wr", "a", <<1>>>>>>, <<"P", <<"api", "w", <<5, 5>>>>>>, <<"P", <<"wr", "b", <<9>>>>>>,
         <<"P", <<"rpdo", 517, <<6, 0, 0, 0, 0, 0, 0, 0>>>>>>, <<"P", <<"rpdo", 773, D1>>>>, <<"P", <<"rpdo", 518, D1>>>>, <<"P", <<"rd", "l">>>>, <<"P", <<"rd", "b">>>>}
BCfg == {<<"P", <<"cfg", "evt", TRUE, 1, 0>>>>, <<"P", <<"cfg", "evt", TRUE, 1, 2>>>>, <<"P", <<"cfg", "cid", TRUE, 1, <<133, 1, 0, 192>>>>>>, <<"P", <<"cfg", "cid", TRUE, 1, <<133, 1, 0, 64>>>>>>,
         <<"P", <<"cfg", "cid", FALSE, 1, <<5, 2, 0, 128>>>>>>, <<"P", <<"cfg", "cid", FALSE, 1, <<5, 2, 0, 0>>>>>>, <<"P", <<"cfg", "type", FALSE, 1, 254>>>>, <<"P", <<"cfg", "type", FALSE, 1, 1>>>>,
         <<"P", <<"cfg", "sid", TRUE, 1, <<128, 0, 0, 64>>>>>>, <<"P", <<"cfg", "sid", TRUE, 1, <<128, 0, 0, 0>>>>>>, <<"P", <<"cfg", "scyc", TRUE, 1, 3000>>>>, <<"P", <<"cfg", "scyc", TRUE, 1, 0>>>>, <<"P", <<"cfg", "sid", TRUE, 1, <<129, 0, 0, 64>>>>>>, <<"P", <<"cfg", "sid", TRUE, 1, <<129, 0, 0, 0>>>>>>,
         <<"P", <<"rdcfg", "scyc", TRUE, 1>>>>, <<"P", <<"rdcfg", "sid", TRUE, 1>>>>}
BEmcy == {<<"E", <<"set", k, <<>>>>>> : k \in {1, 8, 9, 31}} \cup {<<"E", <<"clr", k>>>> : k \in {1, 8, 9, 31}} \cup {<<"E", <<"reset", FALSE>>>>, <<"E", <<"reset", TRUE>>>>, <<"E", <<"cnt">>>>,
          <<"E", <<"rdreg">>>>, <<"E", <<"rdhist", 1>>>>, <<"E", <<"wrhist", 0>>>>, <<"E", <<"wrid", FALSE>>>>, <<"E", <<"wrid", TRUE>>>>}
BGroups == <<BNmt, BStart, BStart, BReset, GMode, GInit, GTick, GTick, GTick, GTick, BHb, BHb, GApp, BPdo, BPdo, GSync, BCfg, BEmcy, GCsdo, GSrv, GSrv>>
BLook == << <<"pool">>, <<"N", <<"getmode">>>>, <<"N", <<"sdord", 4119, 0>>>>, <<"N", <<"sdord", 4118, 1>>>>, <<"N", <<"sdord", 4118, 2>>>>, <<"P", <<"rdcfg", "sid", TRUE, 1>>>>, <<"P", <<"rdcfg", "cid", TRUE, 1>>>>,
            <<"E", <<"rdreg">>>>, <<"E", <<"cnt">>>>, <<"E", <<"rdhist", 0>>>>, <<"C", <<"state">>>>,
            <<"N", <<"hb", 10, 5>>>>, <<"N", <<"hb", 11, 5>>>>, <<"P", <<"trig", 1>>>>, <<"P", <<"rpdo", 517, D1>>>>, <<"P", <<"sync", 128>>>>, <<"P", <<"sync", 128>>>>,
            <<"tick">>, <<"tick">>, <<"tick">>, <<"tick">>, <<"pool">>, <<"N", <<"hbev", 10>>>>, <<"P", <<"rd", "a">>>>, <<"P", <<"rd", "b">>>>,
            <<"E", <<"set", 9, <<>>>>>>, <<"E", <<"clr", 9>>>>, <<"tick">>, <<"tick">>, <<"tick">>, <<"pool">> >>
\* (the last entry of the error table is active across the reset of the probe)
BProbe == BLook \o << <<"E", <<"set", 31, <<>>>>>>, <<"nmt", 130, 127>>, <<"E", <<"cnt">>>>, <<"E", <<"set", 31, <<>>>>>>, <<"E", <<"clr", 31>>>> >> \o BLook \o << <<"nmt", 1, 127>>, <<"C", <<"up", 4, 5>>>>, <<"tick">>, <<"pool">>, <<"C", <<"srv", "ok">>>>, <<"C", <<"ubuf">>>>, <<"P", <<"trig", 1>>>>, <<"P", <<"wr", "a", <<33>>>>>>,
            <<"tick">>, <<"tick">>, <<"tick">>, <<"tick">>, <<"P", <<"sync", 128>>>>, <<"P", <<"sync", 128>>>>, <<"pool">> >>
===============================================================================
