CONSTANTS NodeId = 5  SrvNode = 9  WalkLen = 60  DictName = "full"
INIT Init
NEXT Next
CONSTRAINT EmitWalk
