CONSTANTS Max = 3  Walk = FALSE  WalkLen = 0  ProbeTicks = 7
CONSTANT Pairs <- PairsQuick
INIT Init
NEXT Next
VIEW View
CONSTRAINT EmitEdge
