CONSTANTS NodeId0 = 5  Walk = FALSE  WalkLen = 0
CONSTANT Ident <- ID  Letters <- LFull  ProbeLetters <- PL
INIT Init
NEXT Next
VIEW ViewM
INVARIANT InvC18
