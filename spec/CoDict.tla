------------------------------- MODULE CoDict -------------------------------
(***************************************************************************)
(* Object dictionary: src/core/co_dict.c, co_obj.c and the basic object    *)
(* types (object/basic).  An entry is a record                             *)
(*   [idx, sub, flags, kind, w, data]                                      *)
(* kind "int" (w = 1,2,4; data = w bytes, little endian), "dom" (data =    *)
(* the domain bytes), "str" (data = characters, no NUL), "test" (w = 4,    *)
(* counts its initialisations).  A dictionary is a sequence of entries     *)
(* sorted by (idx, sub) and followed by an end mark (key 0).               *)
(***************************************************************************)
EXTENDS CoBytes, FiniteSets

FlagW == 1   FlagR == 2   FlagP == 4   FlagA == 8   FlagN == 64   FlagD == 128
HasFlag(f, b) == (f \div b) % 2 = 1

\* key order of the C code: (idx << 16) | (sub << 8), flags masked off
DevLess(i1, s1, i2, s2) == i1 < i2 \/ (i1 = i2 /\ s1 < s2)

(***************************************************************************)
(* CODictFind: binary search over positions 0..Num *inclusive*; position   *)
(* Num holds the end mark, whose masked key is (0,0).  Returns the         *)
(* position found (or -1) and the list of positions inspected.             *)
(***************************************************************************)
DevAt(d, pos) == IF pos < Len(d) THEN <<d[pos+1].idx, d[pos+1].sub>> ELSE <<0, 0>>
RECURSIVE Search(_, _, _, _, _, _)
Search(d, idx, sub, start, end, probes) ==
  IF start > end THEN [pos |-> -1, probes |-> probes]
  ELSE LET center == start + ((end - start) \div 2)
           k == DevAt(d, center)
           pr == Append(probes, center) IN
       IF k = <<idx, sub>> THEN [pos |-> center, probes |-> pr]
       ELSE IF DevLess(idx, sub, k[1], k[2])
            THEN Search(d, idx, sub, start, center - 1, pr)
            ELSE Search(d, idx, sub, center + 1, end, pr)
Find(d, idx, sub, flags) ==
  IF idx = 0 /\ sub = 0 /\ flags = 0 THEN [pos |-> -1, probes |-> <<>>]     \* key 0 is "no key"
  ELSE Search(d, idx, sub, 0, Len(d), <<>>)

\* what the property demands of a lookup
Present(d, idx, sub) == \E p \in 1..Len(d) : d[p].idx = idx /\ d[p].sub = sub
FindOK(d, idx, sub, flags) ==
  LET r == Find(d, idx, sub, flags) IN
  /\ (r.pos >= 0) <=> Present(d, idx, sub)
  /\ r.pos >= 0 => (r.pos < Len(d) /\ d[r.pos+1].idx = idx /\ d[r.pos+1].sub = sub)
  /\ \A k \in 1..Len(r.probes) : r.probes[k] \in 0..Len(d)       \* never beyond the end mark
Sorted(d) == \A p \in 1..Len(d)-1 : DevLess(d[p].idx, d[p].sub, d[p+1].idx, d[p+1].sub)

(***************************************************************************)
(* Typed access CODictRdByte/Word/Long, CODictWrByte/Word/Long on entry e  *)
(* with node id n.  Result: [ok, val] / [ok, e'].                          *)
(***************************************************************************)
Width(e) == IF e.kind = "int" \/ e.kind = "test" THEN e.w ELSE 0
RdTyped(e, n, w) ==
  IF e.kind = "int" /\ e.w = w
  THEN [ok |-> TRUE, val |-> IF HasFlag(e.flags, FlagN) THEN AddByte(e.data, n) ELSE e.data]
  ELSE IF e.kind = "test" /\ w = 4 THEN [ok |-> TRUE, val |-> e.data]
  ELSE [ok |-> FALSE, val |-> <<>>]
WrTyped(e, n, w, v) ==
  IF e.kind = "int" /\ e.w = w
  THEN [ok |-> TRUE, e |-> [e EXCEPT !.data = IF HasFlag(e.flags, FlagN) THEN SubByte(v, n) ELSE v]]
  ELSE IF e.kind = "test" /\ w = 4 THEN [ok |-> TRUE, e |-> [e EXCEPT !.data = v]]
  ELSE [ok |-> FALSE, e |-> e]

(***************************************************************************)
(* Buffer access CODictRdBuffer / CODictWrBuffer (start variants: the      *)
(* object's offset is reset first).  moved = min(len, size).               *)
(* Integers: defined for len = width only (other lengths: named deviation  *)
(* IntBufOtherLen, not asserted).                                          *)
(***************************************************************************)
RdBuf(e, n, len) ==
  IF e.kind = "dom" \/ e.kind = "str" THEN [ok |-> TRUE, free |-> FALSE, bytes |-> Take(e.data, len)]
  ELSE IF e.kind = "int" /\ len = e.w THEN [ok |-> TRUE, free |-> FALSE, bytes |-> RdTyped(e, n, e.w).val]
  ELSE [ok |-> FALSE, free |-> TRUE, bytes |-> <<>>]
WrBuf(e, n, bytes) ==
  IF e.kind = "dom" THEN [ok |-> TRUE, free |-> FALSE, e |-> [e EXCEPT !.data = Take(bytes, Len(e.data)) \o Drop(e.data, Len(bytes))]]
  ELSE IF e.kind = "str" THEN [ok |-> FALSE, free |-> FALSE, e |-> e]            \* strings are read-only objects
  ELSE IF e.kind = "int" /\ Len(bytes) = e.w THEN [ok |-> TRUE, free |-> FALSE, e |-> WrTyped(e, n, e.w, bytes).e]
  ELSE [ok |-> FALSE, free |-> TRUE, e |-> e]
\* continued access to a domain (COObjRdBufCont / COObjWrBufCont): goes on at offset `off' (what the preceding access of the object
\* left), moves min(len, size - off) bytes and advances the offset; [bytes / e, off]
DomRdCont(e, off, len) == LET m == Min(len, Len(e.data) - off) IN [bytes |-> SubSeq(e.data, off + 1, off + m), off |-> off + m]
DomWrCont(e, off, bytes) == LET m == Min(Len(bytes), Len(e.data) - off) IN
                            [e |-> [e EXCEPT !.data = Take(e.data, off) \o Take(bytes, m) \o Drop(e.data, off + m)], off |-> off + m]
=============================================================================
