------------------------------ MODULE CoPdoGen ------------------------------
EXTENDS CoPdo, Json, SequencesExt
CONSTANTS Letters, ProbeLetters, Probe2Letters, Walk, WalkLen, TC0, RC0, Sync0, V0, ObjOrder, CfgName, PoolN
VARIABLES p, hist, prev, gh
vars == <<p, hist, prev, gh>>
StepRec(ev, x) == [e |-> ev, x |-> x]
SdoTx == 1408 + NodeId
SdoRx == 1536 + NodeId
Mx(idx, sub) == <<idx % 256, idx \div 256, sub>>
WrOk(idx, sub) == <<"tx", SdoTx, 8, 96>> \o Mx(idx, sub) \o <<-1, -1, -1, -1>>
Abort(idx, sub, code) == <<"tx", SdoTx, 8, 128>> \o Mx(idx, sub) \o code
RdResp(idx, sub, bytes) == <<"tx", SdoTx, 8, 67 + 4 * (4 - Len(bytes))>> \o Mx(idx, sub) \o bytes \o [i \in 1..(4 - Len(bytes)) |-> -1]
WrFrame(idx, sub, bytes) == <<"rx", SdoRx, 8, 35 + 4 * (4 - Len(bytes))>> \o Mx(idx, sub) \o bytes \o [i \in 1..(4 - Len(bytes)) |-> 0]
RdFrame(idx, sub) == <<"rx", SdoRx, 8, 64>> \o Mx(idx, sub) \o <<0, 0, 0, 0>>
Pad8(s) == s \o [i \in 1..(8 - Len(s)) |-> 0]
\* storage changes of the application objects, in dictionary order
Chgs(p0, p1) == LET ch == SelectSeq(ObjOrder, LAMBDA o : p0.v[o] # p1.v[o]) IN
                [i \in 1..Len(ch) |-> <<"chg", Objs[ch[i]].idx, Objs[ch[i]].sub>> \o p1.v[ch[i]]]
CanRx(id) == <<"cb", "canrx", id>>
\* SDO write to a configuration object: [idx, sub, bytes, w] (w = reaction of the reference)
CfgWrite(pp, l) ==
  LET isT == l[3]  k == l[4]
      base == IF isT THEN 6144 ELSE 5120            \* 1800h / 1400h
      mbase == IF isT THEN 6656 ELSE 5632           \* 1A00h / 1600h
  IN CASE l[2] = "cid"  -> [idx |-> base + k - 1, sub |-> 1, bytes |-> l[5], w |-> WriteCid(pp, isT, k, l[5])]
       [] l[2] = "type" -> [idx |-> base + k - 1, sub |-> 2, bytes |-> <<l[5]>>, w |-> WriteType(pp, isT, k, l[5])]
       [] l[2] = "inh"  -> [idx |-> base + k - 1, sub |-> 3, bytes |-> <<l[5] % 256, l[5] \div 256>>, w |-> WriteInh(pp, k, l[5])]
       [] l[2] = "evt"  -> [idx |-> base + k - 1, sub |-> 5, bytes |-> <<l[5] % 256, l[5] \div 256>>, w |-> WriteEvt(pp, k, l[5])]
       [] l[2] = "num"  -> [idx |-> mbase + k - 1, sub |-> 0, bytes |-> <<l[5]>>, w |-> WriteNum(pp, isT, k, l[5])]
       [] l[2] = "map"  -> [idx |-> mbase + k - 1, sub |-> l[5], bytes |-> l[6], w |-> WriteMap(pp, isT, k, l[5], l[6])]
       [] l[2] = "sid"  -> [idx |-> 4101, sub |-> 0, bytes |-> l[5], w |-> WriteSyncId(pp, l[5])]
       [] l[2] = "scyc" -> [idx |-> 4102, sub |-> 0, bytes |-> LE(l[5], 3) \o <<0>>, w |-> WriteSyncCyc(pp, l[5])]
CfgValue(pp, l) ==      \* stored value of a configuration object, for read-back
  LET isT == l[3]  k == l[4]  c == IF isT THEN pp.tc[k] ELSE pp.rc[k]
      base == IF isT THEN 6144 ELSE 5120  mbase == IF isT THEN 6656 ELSE 5632
  IN CASE l[2] = "cid"  -> [idx |-> base + k - 1, sub |-> 1, bytes |-> CidBytes(c, isT)]
       [] l[2] = "type" -> [idx |-> base + k - 1, sub |-> 2, bytes |-> <<c.type>>]
       [] l[2] = "inh"  -> [idx |-> base + k - 1, sub |-> 3, bytes |-> <<c.inh % 256, c.inh \div 256>>]
       [] l[2] = "evt"  -> [idx |-> base + k - 1, sub |-> 5, bytes |-> <<c.evt % 256, c.evt \div 256>>]
       [] l[2] = "num"  -> [idx |-> mbase + k - 1, sub |-> 0, bytes |-> <<c.n>>]
       [] l[2] = "map"  -> [idx |-> mbase + k - 1, sub |-> l[5], bytes |-> c.m[l[5]]]
       [] l[2] = "sid"  -> [idx |-> 4101, sub |-> 0, bytes |-> SyncIdBytes(pp)]
       [] l[2] = "scyc" -> [idx |-> 4102, sub |-> 0, bytes |-> LE(pp.scycus, 3) \o <<0>>]
\* mode INIT -> timers of the stack cleared -> NMT / SDO / SYNC re-initialised -> SYNC object re-read -> boot-up (PRE-OPERATIONAL)
ResetCom(pp) == LET a == [pp EXCEPT !.mode = PREOP, !.td = [k \in 1..NT |-> Dyn0], !.sprod = 0]            \* COTmrClear + SYNC timer deleted
                    b == [a EXCEPT !.ta = [k \in 1..NT |-> OffT], !.ra = [k \in 1..NR |-> OffR], !.rb = [k \in 1..NR |-> <<>>]]   \* PDO tables are rebuilt on OPERATIONAL
                IN [b EXCEPT !.sprod = IF b.sgen THEN b.scyc ELSE 0, !.hbRem = b.hbT]                         \* 1005h / 1017h initialisation re-run
ArmedP(pp) == (IF pp.sprod > 0 THEN 1 ELSE 0) + (IF pp.hbRem > 0 THEN 1 ELSE 0)
              + (IF pp.mode = OPER THEN Cardinality({k \in 1..NT : pp.td[k].inhRem > 0}) + Cardinality({k \in 1..NT : pp.td[k].evRem > 0}) ELSE 0)
Apply(pp, l) ==
  CASE l[1] = "nmt" -> LET r == SetMode(pp, IF l[2] = 1 THEN OPER ELSE IF l[2] = 2 THEN STOP ELSE PREOP) IN
                       [ev |-> <<"rx", 0, 2, l[2], NodeId, 0, 0, 0, 0, 0, 0>>, p |-> r.p, x |-> r.out]
    [] l[1] = "tick" -> LET r == Tick(pp) IN [ev |-> <<"tick">>, p |-> r.p, x |-> r.out]
    [] l[1] = "trig" -> LET r == Trig(pp, l[2]) IN
                        [ev |-> <<"tpdo_trig", l[2] - 1>>, p |-> r.p, x |-> IF pp.mode = OPER /\ pp.ta[l[2]].valid /\ ~IsEvent(pp.ta[l[2]]) THEN << <<"stop">> >> ELSE r.out]
    [] l[1] = "wr" -> \* SDO write to an application object
                      LET o == l[2]  r == WriteObj(pp, o, l[3]) IN
                      IF ~SdoOK(pp.mode) THEN [ev |-> WrFrame(Objs[o].idx, Objs[o].sub, l[3]), p |-> pp, x |-> <<CanRx(SdoRx)>>]
                      ELSE [ev |-> WrFrame(Objs[o].idx, Objs[o].sub, l[3]), p |-> r.p, x |-> r.out \o <<WrOk(Objs[o].idx, Objs[o].sub)>> \o Chgs(pp, r.p)]
    [] l[1] = "api" -> LET o == l[2]  r == WriteObj(pp, o, l[3]) IN
                       [ev |-> <<(IF Len(l[3]) = 1 THEN "wr8" ELSE IF Len(l[3]) = 2 THEN "wr16" ELSE "wr32"), Objs[o].idx, Objs[o].sub>> \o l[3], p |-> r.p,
                        x |-> r.out \o << <<"ok">> >> \o Chgs(pp, r.p)]
    [] l[1] = "rpdo" -> LET k == RpdoMatch(pp, l[2]) IN
                        IF pp.mode = OPER /\ k # 0
                        THEN LET r == RpdoRx(pp, k, l[2], l[3]) IN [ev |-> <<"rx", l[2], 8>> \o l[3], p |-> r.p, x |-> r.out \o Chgs(pp, r.p)]
                        ELSE [ev |-> <<"rx", l[2], 8>> \o l[3], p |-> pp,
                              x |-> IF pp.mode = STOP THEN << <<"free">> >> ELSE IF SyncOK(pp.mode) /\ l[2] = pp.sid THEN <<>> ELSE <<CanRx(l[2])>>]
    [] l[1] = "sync" -> IF SyncOK(pp.mode) /\ l[2] = pp.sid
                        THEN LET r == SyncRx(pp) IN [ev |-> <<"rx", l[2], 0, 0, 0, 0, 0, 0, 0, 0, 0>>, p |-> r.p, x |-> r.out \o Chgs(pp, r.p)]
                        ELSE [ev |-> <<"rx", l[2], 0, 0, 0, 0, 0, 0, 0, 0, 0>>, p |-> pp,
                              x |-> IF pp.mode = STOP THEN << <<"free">> >> ELSE IF pp.mode = OPER /\ RpdoMatch(pp, l[2]) # 0 THEN << <<"stop">> >> ELSE <<CanRx(l[2])>>]
    [] l[1] = "cfg" -> LET c == CfgWrite(pp, l) IN
                       IF ~SdoOK(pp.mode) THEN [ev |-> WrFrame(c.idx, c.sub, c.bytes), p |-> pp, x |-> <<CanRx(SdoRx)>>]
                       ELSE [ev |-> WrFrame(c.idx, c.sub, c.bytes), p |-> c.w.p,
                             x |-> c.w.out \o <<IF c.w.code = <<>> THEN WrOk(c.idx, c.sub) ELSE Abort(c.idx, c.sub, c.w.code)>>]
    [] l[1] = "rdcfg" -> LET c == CfgValue(pp, l) IN
                         [ev |-> RdFrame(c.idx, c.sub), p |-> pp, x |-> IF SdoOK(pp.mode) THEN <<RdResp(c.idx, c.sub, c.bytes)>> ELSE <<CanRx(SdoRx)>>]
    \* NMT reset communication / node: written as the sequence of sub-operations of CONmtReset
    [] l[1] = "reset" -> [ev |-> <<"rx", 0, 2, l[2], NodeId, 0, 0, 0, 0, 0, 0>>, p |-> ResetCom(pp), x |-> << <<"free">> >>]
    \* SDO write to 1017h: the period restarts from the write, 0 stops the producer
    [] l[1] = "hbwr" -> IF ~SdoOK(pp.mode) THEN [ev |-> WrFrame(4119, 0, <<l[2], 0>>), p |-> pp, x |-> <<CanRx(SdoRx)>>]
                        ELSE [ev |-> WrFrame(4119, 0, <<l[2], 0>>), p |-> [pp EXCEPT !.hbT = l[2], !.hbRem = l[2]], x |-> <<WrOk(4119, 0)>>]
    \* (PDO timers that were running when the node left OPERATIONAL keep running in the implementation without effect; how long
    \* they occupy their slots is not modelled: the occupancy is not asserted in that situation)
    [] l[1] = "pool" -> [ev |-> <<"pool">>, p |-> pp,
                         x |-> IF pp.mode # OPER /\ (\E k \in 1..NT : pp.td[k].inhRem > 0 \/ pp.td[k].evRem > 0) THEN << <<"free">> >>
                               ELSE << <<"acts", PoolN - ArmedP(pp)>> >>]
    [] l[1] = "rd" -> LET o == l[2] IN
                      [ev |-> RdFrame(Objs[o].idx, Objs[o].sub), p |-> pp, x |-> IF SdoOK(pp.mode) THEN <<RdResp(Objs[o].idx, Objs[o].sub, pp.v[o])>> ELSE <<CanRx(SdoRx)>>]
Hb0 == IF Len(Sync0) >= 4 THEN Sync0[4] ELSE 0        \* heartbeat producer time in ticks (optional 4th element of Sync0)
P0 == [mode |-> PREOP, v |-> V0, tc |-> TC0, rc |-> RC0, ta |-> [k \in 1..NT |-> OffT], ra |-> [k \in 1..NR |-> OffR],
       td |-> [k \in 1..NT |-> Dyn0], rb |-> [k \in 1..NR |-> <<>>],
       sid |-> Sync0[1], sgen |-> Sync0[2], scyc |-> Sync0[3] \div 1000, scycus |-> Sync0[3], sprod |-> IF Sync0[2] THEN Sync0[3] \div 1000 ELSE 0,
       hbT |-> Hb0, hbRem |-> Hb0]
View == p
\* C20: reset = fresh start with the current dictionary values (PDOs inactive until OPERATIONAL, SYNC as 1005h/1006h say)
FreshFromP(p0) == [P0 EXCEPT !.v = p0.v, !.tc = p0.tc, !.rc = p0.rc, !.sid = p0.sid, !.sgen = p0.sgen, !.scyc = p0.scyc, !.scycus = p0.scycus,
                             !.sprod = IF p0.sgen THEN p0.scyc ELSE 0, !.hbT = p0.hbT, !.hbRem = p0.hbT]
Rec(step) == /\ hist' = (IF Walk THEN Append(hist, step) ELSE <<step>>)
             /\ prev' = View
\* ---- claims on the reference ----
PdoFrames(x, id) == {j \in 1..Len(x) : x[j][1] = "tx" /\ x[j][2] = id}
StepOk(p0, l, a) ==
  \* C12: PDO frames only in OPERATIONAL, only for valid TPDOs, DLC = mapped bytes
  /\ \A j \in 1..Len(a.x) : (a.x[j][1] = "cb" /\ a.x[j][2] = "pdotx") => p0.mode = OPER \/ a.p.mode = OPER
  \* C14: activated configurations never map more than 8 bytes or a missing object
  /\ \A k \in 1..NT : a.p.ta[k].valid => (SumBytes(a.p.tc[k].m, a.p.tc[k].n) <= 8 /\ Len(Payload(a.p, a.p.ta[k].map, 1)) <= 8)
  /\ \A k \in 1..NR : a.p.ra[k].valid => SumBytes(a.p.rc[k].m, a.p.rc[k].n) <= 8
  \* C14: the stored configuration is always activatable (writes keep it valid)
  /\ \A k \in 1..NT : TMapOK(a.p.tc[k])
  /\ \A k \in 1..NR : RMapOK(a.p.rc[k])
  \* C13: objects change only in OPERATIONAL through RPDO / SYNC
  /\ (l[1] \in {"rpdo", "sync"} /\ p0.mode # OPER => a.p.v = p0.v)
  \* C12: no transmission while the inhibit time runs
  /\ \A k \in 1..NT : (p0.mode = OPER /\ p0.ta[k].valid /\ p0.td[k].inhRem > 1 /\ l[1] \notin {"cfg", "nmt", "reset"}) => PdoFrames(a.x, p0.ta[k].id) = {}
  /\ (l[1] = "reset" => a.p = FreshFromP(p0))
  \* C10: a heartbeat frame on a tick iff the producer's countdown expires on it, carrying the current state; nothing but a
  \* write to 1017h or a reset touches the countdown
  /\ (l[1] = "tick" => ((p0.hbRem = 1) <=> (\E j \in 1..Len(a.x) : a.x[j] = HbFrame(p0))))
  /\ (l[1] \notin {"tick", "hbwr", "reset"} => (a.p.hbRem = p0.hbRem /\ a.p.hbT = p0.hbT))
Do(l) == LET a == Apply(p, l) IN
         /\ p' = a.p /\ gh' = StepOk(p, l, a) /\ Rec(StepRec(a.ev, a.x))
Init == p = P0 /\ hist = <<>> /\ prev = <<>> /\ gh = TRUE
Next == \E l \in Letters : Do(l)
InvPdo == gh
\* long inhibit / event times (the 16-bit value range of 18xxh:3 / 18xxh:5) are in some alphabets: their countdowns are followed
\* for the first ticks only
BoundP == \A k \in 1..NT : /\ (p.td[k].evRem <= 8 \/ p.td[k].evRem >= p.ta[k].evT - 2)
                            /\ (p.td[k].inhRem <= 8 \/ p.td[k].inhRem >= p.ta[k].inhT - 2)
RECURSIVE RunLetters(_, _, _)
RunLetters(pp, ls, acc) ==
  IF ls = <<>> THEN acc
  ELSE LET a == Apply(pp, Head(ls)) IN RunLetters(a.p, Tail(ls), Append(acc, StepRec(a.ev, a.x)))
Probe == RunLetters(p, ProbeLetters, <<>>)
Cfg == [n |-> NodeId, name |-> CfgName, tc |-> TC0, rc |-> RC0, sync |-> Sync0, v |-> [i \in 1..Len(ObjOrder) |-> V0[ObjOrder[i]]]]
\* optional second characterisation sequence (e.g. re-enter OPERATIONAL at once and look at the timer pool)
EmitEdge == hist = <<>> \/ (/\ PrintT(<<"EDGE", ToJson([c |-> Cfg, s |-> prev, e |-> hist[Len(hist)], d |-> View, p |-> Probe])>>)
                            /\ (Probe2Letters = <<>> \/ PrintT(<<"EDGE", ToJson([c |-> Cfg, s |-> prev, h |-> <<hist[Len(hist)]>>, d |-> View, p |-> RunLetters(p, Probe2Letters, <<>>)])>>)))
EmitWalk == Len(hist) < WalkLen \/ (PrintT(<<"WALK", ToJson([c |-> Cfg, h |-> hist, p |-> Probe])>>) /\ FALSE)
\* VIEW of the model-checking configurations: TLC evaluates invariants only on states it has not seen before, and "seen" is
\* decided on the VIEW; a step verdict kept in a ghost variable must therefore be part of it, or a violating edge INTO A KNOWN
\* STATE would be discarded unexamined (the generation configurations keep the plain View: the verdict is not behaviour)
ViewM == <<View, gh>>
=============================================================================
