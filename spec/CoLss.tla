------------------------------- MODULE CoLss -------------------------------
(***************************************************************************)
(* LSS slave (CiA 305), src/service/cia305/co_lss.c.  One operator per     *)
(* service function; the shared progress variable `step' of the selective  *)
(* and identify sequences is modelled as in the code.                      *)
(* state: mode "wait"/"conf", step, cfgNode, cfgBaud (bit rate in kbit/s,  *)
(* 0 = none), stored (flag), node (active node id), sNode/sBaud/has (what  *)
(* the application's COLssStore persisted; read back by COLssLoad at the   *)
(* next reset communication).                                              *)
(***************************************************************************)
EXTENDS CoBytes, FiniteSets
CONSTANTS Ident,        \* <<vendor, product, revision, serial>>, each < 2^24 (three low bytes; byte 3 = 0)
          NodeId0       \* node id at start

\* bit timing table (kbit/s; 0 = undefined index)
BaudTbl == <<1000, 800, 500, 250, 125, 0, 50, 20, 10, 0>>
SEL == 0    REM == 10
Lss0 == [mode |-> "wait", step |-> 0, cfgNode |-> 0, cfgBaud |-> 0, stored |-> FALSE, node |-> NodeId0,
         sNode |-> 0, sBaud |-> 0, has |-> FALSE]
R(l, out) == [l |-> l, out |-> out]
\* 32-bit argument at bytes 2..5 of the frame, compared with an identity value
Arg(f) == IF f[5] # 0 THEN 16777216 ELSE f[2] + 256 * f[3] + 65536 * f[4]      \* anything with byte 3 set is "larger than all"
Resp(f, bytes) == <<"tx", 2020, 8>> \o bytes \o SubSeq(f, Len(bytes) + 1, 8)
Zero8(c) == <<"tx", 2020, 8, c, 0, 0, 0, 0, 0, 0, 0>>
IdLE(k) == LE(Ident[k], 3) \o <<0>>
BaudLE(kb) == \* bit rate in bit/s as 4 bytes: kb * 1000
  LET v == kb * 1000 IN <<v % 256, (v \div 256) % 256, (v \div 65536) % 256, 0>>

Step(l, f) ==
  LET cs == f[1]
      wait == l.mode = "wait"
      conf == l.mode = "conf" IN
  CASE cs = 4 -> R([l EXCEPT !.mode = IF f[2] = 1 THEN "conf" ELSE "wait"], IF f[2] \in {0, 1} THEN <<>> ELSE << <<"free">> >>)
    \* switch state selective: vendor, product, revision, serial in this order
    [] cs = 64 /\ wait -> R([l EXCEPT !.step = IF Arg(f) = Ident[1] THEN 1 ELSE 0], <<>>)
    [] cs = 65 /\ wait -> R([l EXCEPT !.step = IF l.step # 1 THEN 0 ELSE IF Arg(f) = Ident[2] THEN 2 ELSE 1], <<>>)
    [] cs = 66 /\ wait -> R([l EXCEPT !.step = IF l.step # 2 THEN 0 ELSE IF Arg(f) = Ident[3] THEN 3 ELSE 2], <<>>)
    [] cs = 67 /\ wait -> IF l.step # 3 THEN R([l EXCEPT !.step = 0], <<>>)
                          ELSE IF Arg(f) = Ident[4] THEN R([l EXCEPT !.mode = "conf"], <<Zero8(68)>>) ELSE R(l, <<>>)
    \* configuration services: configuration state only
    [] cs = 19 /\ conf -> LET ok == f[2] = 0 /\ f[3] < 10 /\ BaudTbl[f[3] + 1] # 0 IN
                          R([l EXCEPT !.cfgBaud = IF f[2] = 0 /\ f[3] < 10 THEN BaudTbl[f[3] + 1] ELSE @],
                            <<Resp(f, <<19, IF ok THEN 0 ELSE 1, 0>>)>>)
    [] cs = 17 /\ conf -> LET ok == (f[2] >= 1 /\ f[2] <= 127) \/ f[2] = 255 IN
                          R([l EXCEPT !.cfgNode = IF ok THEN f[2] ELSE @], <<Resp(f, <<17, IF ok THEN 0 ELSE 1>>)>>)
    [] cs = 23 /\ conf -> R([l EXCEPT !.stored = TRUE, !.sNode = l.cfgNode, !.sBaud = l.cfgBaud, !.has = TRUE],
                            << <<"cb", "lssstore">> \o BaudLE(l.cfgBaud) \o <<l.cfgNode>>, Resp(f, <<23, 0>>) >>)
    [] cs \in 90..93 /\ conf -> R(l, <<Resp(f, <<cs>> \o IdLE(cs - 89))>>)
    [] cs = 94 /\ conf -> R(l, <<Resp(f, <<94, l.node>>)>>)
    \* identify remote slave: vendor, product, revision low/high, serial low/high
    [] cs = 70 -> R([l EXCEPT !.step = IF Arg(f) = Ident[1] THEN 11 ELSE 10], <<>>)
    [] cs = 71 -> R([l EXCEPT !.step = IF l.step # 11 THEN 10 ELSE IF Arg(f) = Ident[2] THEN 12 ELSE 11], <<>>)
    [] cs = 72 -> R([l EXCEPT !.step = IF l.step # 12 THEN 10 ELSE IF Arg(f) <= Ident[3] THEN 13 ELSE 12], <<>>)
    [] cs = 73 -> R([l EXCEPT !.step = IF l.step # 13 THEN 10 ELSE IF Arg(f) >= Ident[3] THEN 14 ELSE 13], <<>>)
    [] cs = 74 -> R([l EXCEPT !.step = IF l.step # 14 THEN 10 ELSE IF Arg(f) <= Ident[4] THEN 15 ELSE 14], <<>>)
    [] cs = 75 -> IF l.step # 15 THEN R([l EXCEPT !.step = 10], <<>>)
                  ELSE IF Arg(f) >= Ident[4] THEN R(l, <<Zero8(79)>>) ELSE R(l, <<>>)
    [] cs = 76 -> R(l, IF l.node = 255 /\ l.stored THEN <<Zero8(80)>> ELSE <<>>)
    [] OTHER -> R(l, <<>>)          \* unknown service, or not allowed in this state: ignored

\* reset communication: the persisted configuration becomes active; the slave restarts in waiting state
ResetCom(l) == [l EXCEPT !.mode = "wait", !.step = 0, !.cfgNode = 0, !.cfgBaud = 0, !.stored = FALSE,
                         !.node = IF l.has THEN l.sNode ELSE @]
=============================================================================
