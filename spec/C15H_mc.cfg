CONSTANTS NodeId = 5  Depth = 2  Walk = FALSE  WalkLen = 0
CONSTANT Tbl <- T12  Letters <- LEH  ProbeLetters <- PEH
INIT Init
NEXT Next
VIEW ViewM
INVARIANT InvC15
