-------------------------------- MODULE CoPdo --------------------------------
(***************************************************************************)
(* PDO and SYNC services in the context of a node: co_pdo.c, co_sync.c,    *)
(* the 14xxh/16xxh/18xxh/1Axxh/1005h/1006h object types and the integer    *)
(* object types as far as they trigger TPDOs.  Reference semantics for     *)
(* C12, C13, C14, C16 (DESIGN appendix A.6, A.8).                          *)
(*                                                                         *)
(* node record p:                                                          *)
(*  mode                NMT mode (2 PRE-OP, 3 OP, 4 STOPPED)               *)
(*  v                   application object values: [name -> bytes]         *)
(*  tc[k], rc[k]        STORED configuration of TPDO / RPDO k (dictionary) *)
(*  ta[k], ra[k]        ACTIVATED configuration (latched on entering       *)
(*                      OPERATIONAL or on re-validation while OPERATIONAL) *)
(*  td[k]               dynamic TPDO state: inhRem, evRem (countdowns, 0 = *)
(*                      off), pend (trigger deferred by the inhibit time), *)
(*                      scnt (SYNC counter)                                *)
(*  rb[k]               frame buffered by synchronous RPDO k (<<>> = none) *)
(*  sid, sgen, scyc     1005h CAN-ID, generate bit, 1006h period in ticks  *)
(*  sprod               ticks until the next produced SYNC (0 = off)       *)
(* Timers are abstract countdowns (1 kHz: inhibit value 10 = 1 tick,       *)
(* event value 1 = 1 tick, 1006h value 1000 = 1 tick).                     *)
(***************************************************************************)
EXTENDS CoBytes, FiniteSets, TLC
CONSTANTS NodeId, NT, NR,     \* number of TPDOs / RPDOs
          Objs                \* application objects: [name -> [idx, sub, size, r, w, map, async]]

PREOP == 2   OPER == 3   STOP == 4   INIT == 1
SdoOK(m) == m \in {PREOP, OPER}
SyncOK(m) == m \in {PREOP, OPER}
Names == DOMAIN Objs
\* mapping entry: 4 bytes little endian  <<bits, sub, idxLo, idxHi>>
MapIdx(m) == m[3] + 256 * m[4]
MapBytes(m) == m[1] \div 8
Resolve(m) == IF \E o \in Names : Objs[o].idx = MapIdx(m) /\ Objs[o].sub = m[2]
              THEN CHOOSE o \in Names : Objs[o].idx = MapIdx(m) /\ Objs[o].sub = m[2] ELSE "none"
IsDummy(m) == MapIdx(m) \in 2..7 /\ m[2] = 0
MapOf(o, bits) == <<bits, Objs[o].sub, Objs[o].idx % 256, Objs[o].idx \div 256>>

R(p, out) == [p |-> p, out |-> out]
\* ---- activation: stored -> activated configuration ---------------------------------
\* TPDO: valid iff COB-ID not "off", RTR not allowed (bit 30 set), no extended id, and the mapping resolves with <= 8 bytes
RECURSIVE SumBytes(_, _)
SumBytes(ms, n) == IF n = 0 THEN 0 ELSE MapBytes(ms[n]) + SumBytes(ms, n - 1)
TMapOK(c) == SumBytes(c.m, c.n) <= 8 /\ \A i \in 1..c.n : Resolve(c.m[i]) # "none"
RMapOK(c) == SumBytes(c.m, c.n) <= 8 /\ \A i \in 1..c.n : IsDummy(c.m[i]) \/ Resolve(c.m[i]) # "none"
ActT(c) == [valid |-> ~c.off /\ c.rtr /\ ~c.ext /\ TMapOK(c), id |-> c.id, type |-> c.type, inhT |-> c.inh \div 10, evT |-> IF c.type >= 254 THEN c.evt ELSE 0,
            map |-> IF TMapOK(c) THEN [i \in 1..c.n |-> <<Resolve(c.m[i]), MapBytes(c.m[i])>>] ELSE <<>>]
ActR(c) == [valid |-> ~c.off /\ ~c.ext /\ RMapOK(c), id |-> c.id, sync |-> c.type <= 240,
            map |-> IF RMapOK(c) THEN [i \in 1..c.n |-> <<IF IsDummy(c.m[i]) THEN "dummy" ELSE Resolve(c.m[i]), MapBytes(c.m[i])>>] ELSE <<>>]
OffT == [valid |-> FALSE, id |-> 0, type |-> 0, inhT |-> 0, evT |-> 0, map |-> <<>>]
OffR == [valid |-> FALSE, id |-> 0, sync |-> FALSE, map |-> <<>>]
Dyn0 == [inhRem |-> 0, evRem |-> 0, pend |-> FALSE, scnt |-> 0]
\* (re)activate TPDO k: armed actions of an earlier activation are cancelled, the event time starts
\* (named deviation TpdoInitialStagger: first period is event + (k-1) ticks)
ActivateT(p, k) == LET a == ActT(p.tc[k]) IN
                   [p EXCEPT !.ta[k] = a, !.td[k] = [Dyn0 EXCEPT !.evRem = IF a.evT > 0 THEN a.evT + (k - 1) ELSE 0]]
ActivateR(p, k) == [p EXCEPT !.ra[k] = ActR(p.rc[k]), !.rb[k] = <<>>]
RECURSIVE ActivateAll(_, _)
ActivateAll(p, k) == IF k > NT + NR THEN p
                     ELSE ActivateAll(IF k <= NT THEN ActivateT(p, k) ELSE ActivateR(p, k - NT), k + 1)
\* leaving OPERATIONAL: PDOs inactive, their timers keep running in the implementation but have no effect
SetMode(p, m) == IF p.mode = m THEN R(p, <<>>)
                 ELSE R(IF m = OPER THEN ActivateAll([p EXCEPT !.mode = m], 1) ELSE [p EXCEPT !.mode = m], << <<"cb", "modechg", m>> >>)

\* ---- TPDO transmission --------------------------------------------------------------
RECURSIVE Payload(_, _, _)
Payload(p, map, i) == IF i > Len(map) THEN <<>> ELSE Take(p.v[map[i][1]], map[i][2]) \o Payload(p, map, i + 1)
Frame(p, k) == LET d == Payload(p, p.ta[k].map, 1) IN << <<"cb", "pdotx", p.ta[k].id>>, <<"tx", p.ta[k].id, Len(d)>> \o d >>
\* transmit attempt of TPDO k (COTPdoTx)
Tx(p, k) ==
  IF p.mode # OPER \/ ~p.ta[k].valid THEN R(p, <<>>)
  ELSE IF p.td[k].inhRem > 0 THEN R([p EXCEPT !.td[k].pend = TRUE], <<>>)
  ELSE R([p EXCEPT !.td[k].evRem = p.ta[k].evT, !.td[k].inhRem = p.ta[k].inhT], Frame(p, k))
IsEvent(a) == a.type >= 254
\* application trigger / changed asynchronous object: event-driven TPDOs only are asserted
\* (named deviation: a trigger of a synchronous TPDO transmits at once in the implementation)
Trig(p, k) == Tx(p, k)
RECURSIVE TrigObjFrom(_, _, _, _)
TrigObjFrom(p, o, k, out) ==
  IF k > NT THEN R(p, out)
  ELSE IF p.ta[k].valid /\ (\E i \in 1..Len(p.ta[k].map) : p.ta[k].map[i][1] = o)
       THEN LET t == Tx(p, k) IN TrigObjFrom(t.p, o, k + 1, out \o t.out)
       ELSE TrigObjFrom(p, o, k + 1, out)
\* write of `bytes' to application object o (through SDO, RPDO or the dictionary API)
WriteObj(p, o, bytes) ==
  LET p1 == [p EXCEPT !.v[o] = bytes] IN
  IF Objs[o].async /\ Objs[o].map /\ p.v[o] # bytes /\ p.mode = OPER THEN TrigObjFrom(p1, o, 1, <<>>) ELSE R(p1, <<>>)

\* ---- RPDO ------------------------------------------------------------------------------
RECURSIVE Distribute(_, _, _, _, _)
Distribute(p, map, i, data, out) ==
  IF i > Len(map) THEN R(p, out)
  ELSE LET o == map[i][1]  n == map[i][2] IN
       IF o = "dummy" THEN Distribute(p, map, i + 1, Drop(data, n), out)
       ELSE LET w == WriteObj(p, o, Take(data, n)) IN Distribute(w.p, map, i + 1, Drop(data, n), out \o w.out)
RpdoMatch(p, id) == IF \E k \in 1..NR : p.ra[k].valid /\ p.ra[k].id = id THEN CHOOSE k \in 1..NR : p.ra[k].valid /\ p.ra[k].id = id /\ \A j \in 1..(k - 1) : ~(p.ra[j].valid /\ p.ra[j].id = id) ELSE 0
RpdoRx(p, k, id, data) ==
  IF p.ra[k].sync THEN R([p EXCEPT !.rb[k] = data], << <<"cb", "pdorx", id>> >>)
  ELSE LET d == Distribute(p, p.ra[k].map, 1, data, <<>>) IN R(d.p, << <<"cb", "pdorx", id>> >> \o d.out)

\* ---- SYNC --------------------------------------------------------------------------------
RECURSIVE SyncT(_, _, _)
SyncT(p, k, out) ==
  IF k > NT THEN R(p, out)
  ELSE LET a == p.ta[k] IN
       IF ~a.valid \/ a.type > 240 \/ a.type = 0 THEN SyncT(p, k + 1, out)
       ELSE IF p.td[k].scnt + 1 = a.type
            THEN LET t == Tx([p EXCEPT !.td[k].scnt = 0], k) IN SyncT(t.p, k + 1, out \o t.out)
            ELSE SyncT([p EXCEPT !.td[k].scnt = @ + 1], k + 1, out)
RECURSIVE SyncR(_, _, _)
SyncR(p, k, out) ==
  IF k > NR THEN R(p, out)
  ELSE IF p.ra[k].valid /\ p.ra[k].sync /\ p.rb[k] # <<>>
       THEN LET d == Distribute([p EXCEPT !.rb[k] = <<>>], p.ra[k].map, 1, p.rb[k], <<>>) IN SyncR(d.p, k + 1, out \o d.out)
       ELSE SyncR(p, k + 1, out)
\* a received SYNC: synchronous TPDOs first, then the buffered RPDOs (only OPERATIONAL has active PDOs)
SyncRx(p) == IF p.mode = OPER THEN LET a == SyncT(p, 1, <<>>)  b == SyncR(a.p, 1, a.out) IN b ELSE R(p, <<>>)
SyncFrame(p) == <<"tx", p.sid, 0>>

\* ---- tick ------------------------------------------------------------------------------------
\* inhibit expiry before event expiry (C12); alphabets keep the two from falling on one tick
TickT(p, k) ==
  LET d == p.td[k]
      p1 == [p EXCEPT !.td[k].inhRem = IF d.inhRem > 0 THEN d.inhRem - 1 ELSE 0]
      a == IF d.inhRem = 1 /\ d.pend THEN Tx([p1 EXCEPT !.td[k].pend = FALSE], k) ELSE R(p1, <<>>)
      e == a.p.td[k].evRem
      \* the event countdown that was running before this tick (a transmission just made restarts it)
      p2 == IF d.evRem > 1 /\ a.out = <<>> THEN [a.p EXCEPT !.td[k].evRem = d.evRem - 1] ELSE a.p
      b == IF d.evRem = 1 /\ a.out = <<>> THEN Tx([p2 EXCEPT !.td[k].evRem = 0], k) ELSE R(p2, <<>>)
  IN R(b.p, a.out \o b.out)
RECURSIVE TickTs(_, _, _)
TickTs(p, k, out) == IF k > NT THEN R(p, out) ELSE LET t == TickT(p, k) IN TickTs(t.p, k + 1, out \o t.out)
\* heartbeat producer (C10: "no NMT state change, PDO or SYNC reconfiguration or other timer activity shifts, duplicates
\* or suppresses a heartbeat"): hbT = 1017h in ticks (0 = off), hbRem = ticks until the next heartbeat
HbFrame(p) == <<"tx", 1792 + NodeId, 1, IF p.mode = OPER THEN 5 ELSE IF p.mode = STOP THEN 4 ELSE 127>>
Tick(p) ==
  LET a == IF p.mode = OPER THEN TickTs(p, 1, <<>>) ELSE R(p, <<>>)
      s == IF a.p.sprod = 0 THEN R(a.p, <<>>)
           ELSE IF a.p.sprod > 1 THEN R([a.p EXCEPT !.sprod = @ - 1], <<>>)
           ELSE R([a.p EXCEPT !.sprod = a.p.scyc], IF SyncOK(a.p.mode) THEN <<SyncFrame(a.p)>> ELSE <<>>)
      h == IF s.p.hbRem = 0 THEN R(s.p, <<>>)
           ELSE IF s.p.hbRem > 1 THEN R([s.p EXCEPT !.hbRem = @ - 1], <<>>)
           ELSE R([s.p EXCEPT !.hbRem = s.p.hbT], <<HbFrame(s.p)>>)
  IN R(h.p, a.out \o s.out \o h.out)

\* ---- object writes through SDO (expedited) --------------------------------------------------
A_RANGE == <<48, 0, 9, 6>>    A_MAP == <<65, 0, 4, 6>>    A_MAPLEN == <<66, 0, 4, 6>>    A_ANY == <<-1, -1, -1, -1>>
W(p, code, out) == [p |-> p, code |-> code, out |-> out]       \* code <<>> = accepted
\* COB-ID value: bytes <<b0, b1, b2, b3>>; bit 31 off, bit 30 rtr-not-allowed (TPDO), bit 29 ext
CidOff(b) == b[4] >= 128
CidRtr(b) == (b[4] \div 64) % 2 = 1
CidExt(b) == (b[4] \div 32) % 2 = 1
CidId(b) == b[1] + 256 * (b[2] % 8)
CidBytes(c, isT) == <<c.id % 256, c.id \div 256, 0, (IF c.off THEN 128 ELSE 0) + (IF isT /\ c.rtr THEN 64 ELSE 0) + (IF c.ext THEN 32 ELSE 0)>>
\* 14xxh/18xxh:1
WriteCid(p, isT, k, b) ==
  LET c == IF isT THEN p.tc[k] ELSE p.rc[k]
      c1 == [c EXCEPT !.off = CidOff(b), !.id = CidId(b), !.rtr = CidRtr(b), !.ext = FALSE]
      store(q) == IF isT THEN [q EXCEPT !.tc[k] = c1] ELSE [q EXCEPT !.rc[k] = c1]
      react(q) == IF q.mode = OPER THEN (IF isT THEN ActivateT(q, k) ELSE ActivateR(q, k)) ELSE q
  IN IF CidExt(b) THEN W(p, A_RANGE, <<>>)
     ELSE IF isT /\ ~CidRtr(b) THEN W(p, A_RANGE, <<>>)
     ELSE IF ~c.off /\ ~CidOff(b) THEN W(p, A_RANGE, <<>>)                  \* valid -> valid: only "set invalid" is allowed
     ELSE IF c.off /\ CidOff(b) THEN W(store(p), <<>>, <<>>)
     ELSE W(react(store(p)), <<>>, <<>>)
WriteType(p, isT, k, t) ==
  LET c == IF isT THEN p.tc[k] ELSE p.rc[k] IN
  IF ~c.off THEN W(p, A_RANGE, <<>>)
  ELSE W(IF isT THEN [p EXCEPT !.tc[k].type = t] ELSE [p EXCEPT !.rc[k].type = t], <<>>, <<>>)
EntryOK(isT, m) == LET o == Resolve(m) IN
                    (~isT /\ IsDummy(m)) \/ (o # "none" /\ Objs[o].map /\ (IF isT THEN Objs[o].r ELSE Objs[o].w))
WriteNum(p, isT, k, n) ==
  LET c == IF isT THEN p.tc[k] ELSE p.rc[k] IN
  IF ~c.off THEN W(p, A_ANY, <<>>)
  ELSE IF n > 8 THEN W(p, A_MAPLEN, <<>>)
  ELSE IF n > Len(c.m) THEN W(p, A_MAP, <<>>)                   \* entries that do not exist in the dictionary
  \* every counted entry must name an existing, mappable object with the matching access right, and the sum may not
  \* exceed 8 bytes; when both rules are broken at once either abort code (0604 0041h / 0604 0042h) is a correct refusal
  ELSE IF SumBytes(c.m, n) > 8 /\ (\E i \in 1..n : ~EntryOK(isT, c.m[i])) THEN W(p, <<-1, 0, 4, 6>>, <<>>)
  ELSE IF SumBytes(c.m, n) > 8 THEN W(p, A_MAPLEN, <<>>)
  ELSE IF \E i \in 1..n : ~EntryOK(isT, c.m[i]) THEN W(p, A_MAP, <<>>)
  ELSE W(IF isT THEN [p EXCEPT !.tc[k].n = n] ELSE [p EXCEPT !.rc[k].n = n], <<>>, <<>>)
WriteMap(p, isT, k, i, m) ==
  LET c == IF isT THEN p.tc[k] ELSE p.rc[k]
      o == Resolve(m) IN
  IF ~c.off \/ c.n # 0 THEN W(p, A_ANY, <<>>)
  ELSE IF o = "none" \/ ~Objs[o].map \/ (isT /\ ~Objs[o].r) \/ (~isT /\ ~Objs[o].w) THEN W(p, A_MAP, <<>>)     \* (dummies cannot be written through SDO)
  ELSE W(IF isT THEN [p EXCEPT !.tc[k].m[i] = m] ELSE [p EXCEPT !.rc[k].m[i] = m], <<>>, <<>>)
\* 18xxh:3 inhibit time: plain value, takes effect at the next activation
WriteInh(p, k, t) == W([p EXCEPT !.tc[k].inh = t], <<>>, <<>>)
\* 18xxh:5 event time: stored; while OPERATIONAL with a valid PDO the event time restarts with the new value.
\* Named deviation InhibitRestartsOnEventWrite: a running inhibit time restarts at the write (never shortens it).
WriteEvt(p, k, t) ==
  LET p1 == [p EXCEPT !.tc[k].evt = t] IN
  IF p.mode = OPER /\ ~p.tc[k].off
  THEN W([p1 EXCEPT !.ta[k].evT = IF p.ta[k].type >= 254 THEN t ELSE @, !.td[k].evRem = IF p.ta[k].type >= 254 /\ p.ta[k].valid THEN t ELSE @,
                    !.td[k].inhRem = IF @ > 0 THEN p.ta[k].inhT ELSE 0], <<>>, <<>>)
  \* a disabled TPDO: the write stops the event countdown that its (re)initialisation had started, nothing is re-armed
  ELSE IF p.mode = OPER THEN W([p1 EXCEPT !.td[k].evRem = 0], <<>>, <<>>)
  ELSE W(p1, <<>>, <<>>)
\* 1005h / 1006h
SyncIdBytes(p) == <<p.sid % 256, p.sid \div 256, 0, IF p.sgen THEN 64 ELSE 0>>
WriteSyncId(p, b) ==
  LET nid == b[1] + 256 * (b[2] % 8)  ngen == (b[4] \div 64) % 2 = 1 IN
  IF p.sgen
  THEN IF nid # p.sid THEN W(p, A_RANGE, <<>>)
       ELSE W([p EXCEPT !.sgen = ngen, !.sprod = IF ngen THEN @ ELSE 0], <<>>, <<>>)
  ELSE IF ngen /\ p.scyc = 0 THEN W(p, A_RANGE, <<>>)                     \* period the timer cannot resolve
       ELSE W([p EXCEPT !.sid = nid, !.sgen = ngen, !.sprod = IF ngen THEN p.scyc ELSE 0], <<>>, <<>>)
\* 1006h in microseconds (3 low bytes); resolvable iff at least one tick (1000 us)
WriteSyncCyc(p, us) ==
  LET t == us \div 1000 IN
  IF p.sgen /\ t = 0 THEN W(p, A_RANGE, <<>>)
  ELSE W([p EXCEPT !.scyc = t, !.scycus = us, !.sprod = IF p.sgen THEN t ELSE 0], <<>>, <<>>)
=============================================================================
