-------------------------------- MODULE MCTmr --------------------------------
EXTENDS CoTmrGen
PairsFull  == (0..3) \X (0..3)
\* quick tier: half of the pairs, still containing: both-zero, start 0 with a
\* cycle, one-shots of every length, cyclic with start < = > cycle
PairsQuick == {<<0,0>>, <<0,2>>, <<1,0>>, <<2,0>>, <<3,0>>, <<1,1>>, <<2,3>>, <<3,1>>}
PairsWalk  == {0,1,2,3,5} \X {0,1,2,3,5}
PairsBig   == {<<0,0>>, <<0,3>>, <<1,0>>, <<2,0>>, <<4,0>>, <<1,2>>, <<3,1>>}
==============================================================================
