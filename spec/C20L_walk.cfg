CONSTANTS NodeId0 = 5  Walk = TRUE  WalkLen = 40
CONSTANT Ident <- ID  Letters <- L20L  ProbeLetters <- PL20
INIT Init
NEXT Next

CONSTRAINT EmitWalk
