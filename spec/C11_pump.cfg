CONSTANTS NodeId = 5  HbInit = 0  Walk = FALSE  WalkLen = 0  EvCap = 255  PoolN = 16
CONSTANT Letters <- LNone  HcInit <- HC11  ProbeLetters <- P11
INIT Init
NEXT Next
CONSTRAINT EmitPump11
