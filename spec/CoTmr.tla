------------------------------- MODULE CoTmr -------------------------------
(***************************************************************************)
(* Functional-core model of the software timer manager, src/core/co_tmr.c  *)
(* together with the down-counting hardware timer of the reference driver  *)
(* (src/hal/co_if_timer.c, driver semantics: Reload/Delay/Stop/Update).    *)
(*                                                                         *)
(* State record (same lists as CO_TMR):                                    *)
(*   use     : Seq([delta, acts])  pending events, ordered by time; the    *)
(*             delta of the head is stale, the hardware counter hw is the  *)
(*             truth; acts = ids in creation order                         *)
(*   elapsed : Seq(Seq(Id))       events whose time has come, newest first *)
(*   freeA   : Seq(Id)            free action slots (LIFO, as CO_TMR.Acts) *)
(*   nFreeT  : Nat                free time-event slots (CO_TMR.Free)      *)
(*   hw      : Nat                hardware down counter, 0 = stopped       *)
(*   cyc     : [Ids -> Nat]       CycleTicks of the live actions           *)
(* Each operator below is one public function of co_tmr.c and returns the  *)
(* new state together with what the caller can observe.                    *)
(***************************************************************************)
EXTENDS Integers, Sequences, FiniteSets
CONSTANTS Max          \* pool size (CO_TMR.Max)

Ids == 0 .. Max-1

TmrInit == [use |-> <<>>, elapsed |-> <<>>,
            freeA |-> [i \in 1..Max |-> i-1], nFreeT |-> Max, hw |-> 0,
            cyc |-> [i \in Ids |-> 0]]

SeqInsertAt(s, i, e) == SubSeq(s, 1, i-1) \o <<e>> \o SubSeq(s, i, Len(s))
SeqRemoveAt(s, i)    == SubSeq(s, 1, i-1) \o SubSeq(s, i+1, Len(s))

\* COTmrInsert, non-empty list: walk the delta list exactly like the C loop.
\* i = index of tx, dTx = time of tx from now, d = new time, id = action
RECURSIVE Place(_, _, _, _, _)
Place(use, i, dTx, d, id) ==
  IF d > dTx THEN
     IF i = Len(use)
     THEN Append(use, [delta |-> d - dTx, acts |-> <<id>>])
     ELSE LET nx == dTx + use[i+1].delta IN
          IF d < nx
          THEN LET u1 == SeqInsertAt(use, i+1, [delta |-> d - dTx, acts |-> <<id>>])
               IN [u1 EXCEPT ![i+2].delta = nx - d]
          ELSE Place(use, i+1, nx, d, id)
  ELSE IF d = dTx
       THEN [use EXCEPT ![i].acts = Append(@, id)]
       ELSE \* d < dTx : only possible for i = 1 (new head)
            <<[delta |-> d, acts |-> <<id>>]>> \o [use EXCEPT ![1].delta = dTx - d]

Insert(t, d, id) ==
  IF t.use = <<>>
  THEN [t EXCEPT !.use = <<[delta |-> d, acts |-> <<id>>]>>, !.hw = d, !.nFreeT = @ - 1]
  ELSE LET u == Place(t.use, 1, t.hw, d, id) IN
       [t EXCEPT !.use = u,
                 !.nFreeT = IF Len(u) > Len(t.use) THEN @ - 1 ELSE @,
                 !.hw = IF d < t.hw THEN d ELSE @]

\* COTmrCreate -> [st, ret]   (ret = id or -1)
Create(t, start0, cycle) ==
  LET start == IF start0 = 0 THEN cycle ELSE start0 IN
  IF start = 0 \/ t.freeA = <<>> THEN [st |-> t, ret |-> -1]
  ELSE LET id == Head(t.freeA)
           t1 == [t EXCEPT !.freeA = Tail(@), !.cyc[id] = cycle]
       IN [st |-> Insert(t1, start, id), ret |-> id]

\* position of the event holding id in a list of action lists (0 if absent)
RECURSIVE FindEvt(_, _, _)
FindEvt(evts, id, i) ==
  IF i > Len(evts) THEN 0
  ELSE IF \E k \in 1..Len(evts[i]) : evts[i][k] = id THEN i ELSE FindEvt(evts, id, i+1)
Without(s, id) == SelectSeq(s, LAMBDA x : x # id)
UseActs(t) == [k \in 1..Len(t.use) |-> t.use[k].acts]

\* COTmrRemove: unlink the emptied event i of the used list
RemoveUse(t, i) ==
  IF i = 1
  THEN IF Len(t.use) = 1
       THEN [t EXCEPT !.use = <<>>, !.hw = 0, !.nFreeT = @ + 1]
       ELSE LET nd == t.use[2].delta + t.hw IN
            [t EXCEPT !.use = [Tail(@) EXCEPT ![1].delta = nd], !.hw = nd, !.nFreeT = @ + 1]
  ELSE IF i < Len(t.use)
       THEN [t EXCEPT !.use = SeqRemoveAt([@ EXCEPT ![i+1].delta = @ + t.use[i].delta], i),
                      !.nFreeT = @ + 1]
       ELSE [t EXCEPT !.use = SeqRemoveAt(@, i), !.nFreeT = @ + 1]

\* COTmrDelete -> [st, ret].  Reference = repaired algorithm (DESIGN A.1): an
\* action found on the elapsed list is removed there, and an event emptied
\* that way is unlinked from the *elapsed* list and returned to the pool.
Delete(t, id) ==
  IF id \notin Ids THEN [st |-> t, ret |-> -1]
  ELSE LET iu == FindEvt(UseActs(t), id, 1)
           ie == FindEvt(t.elapsed, id, 1)
           freed(x) == [x EXCEPT !.freeA = <<id>> \o @, !.cyc[id] = 0]
       IN IF iu > 0
          THEN LET t1 == [t EXCEPT !.use[iu].acts = Without(@, id)] IN
               [st |-> freed(IF t1.use[iu].acts = <<>> THEN RemoveUse(t1, iu) ELSE t1), ret |-> 0]
          ELSE IF ie > 0
               THEN LET t1 == [t EXCEPT !.elapsed[ie] = Without(@, id)] IN
                    [st |-> freed(IF t1.elapsed[ie] = <<>>
                                  THEN [t1 EXCEPT !.elapsed = SeqRemoveAt(@, ie), !.nFreeT = @ + 1]
                                  ELSE t1), ret |-> 0]
               ELSE [st |-> t, ret |-> -1]

\* COTmrService -> [st, ret]
Service(t) ==
  IF t.hw = 0 THEN [st |-> t, ret |-> 0]
  ELSE IF t.hw > 1 THEN [st |-> [t EXCEPT !.hw = @ - 1], ret |-> 0]
  ELSE LET rest == Tail(t.use) IN
       [st |-> [t EXCEPT !.elapsed = <<Head(t.use).acts>> \o @,
                         !.use = rest,
                         !.hw = IF rest = <<>> THEN 0 ELSE rest[1].delta],
        ret |-> 1]

\* COTmrProcess with callbacks that do not touch the timer -> [st, fired]
\* (a cyclic action is re-queued, a one-shot freed, *before* its callback)
RECURSIVE RunActs(_, _, _)
RunActs(t, acts, fired) ==
  IF acts = <<>> THEN [st |-> t, fired |-> fired]
  ELSE LET id == Head(acts) IN
       IF t.cyc[id] = 0
       THEN RunActs([t EXCEPT !.freeA = <<id>> \o @], Tail(acts), Append(fired, id))
       ELSE RunActs(Insert(t, t.cyc[id], id), Tail(acts), Append(fired, id))
RECURSIVE Process(_, _)
Process(t, fired) ==
  IF t.elapsed = <<>> THEN [st |-> t, fired |-> fired]
  ELSE LET acts == Head(t.elapsed)
           t1 == [t EXCEPT !.elapsed = Tail(@), !.nFreeT = @ + 1]
           r  == RunActs(t1, acts, fired)
       IN Process(r.st, r.fired)

\* one tick of a system that processes after every service call
Tick(t) == LET s == Service(t) IN Process(s.st, <<>>)

\* ---- structural invariants of a state record ------------------------------
RECURSIVE SumLen(_)
SumLen(ss) == IF ss = <<>> THEN 0 ELSE Len(Head(ss)) + SumLen(Tail(ss))
PoolOK(t) ==
  /\ t.nFreeT >= 0
  /\ t.nFreeT + Len(t.use) + Len(t.elapsed) = Max
  /\ Len(t.freeA) + SumLen(UseActs(t)) + SumLen(t.elapsed) = Max
  /\ (t.use = <<>>) <=> (t.hw = 0)
  /\ \A k \in 2..Len(t.use) : t.use[k].delta > 0
  /\ \A k \in 1..Len(t.use) : t.use[k].acts # <<>>
  /\ \A k \in 1..Len(t.elapsed) : t.elapsed[k] # <<>>
Live(t) == Ids \ {t.freeA[k] : k \in 1..Len(t.freeA)}

\* ---- tick conversion: COTmrGetTicks / COTmrGetMinTime ---------------------
\* Reference (what the property demands): floor(time * freq / unit); exact
\* whenever the time is a whole number of ticks, and monotonic.  The product is
\* formed in reduced terms so that it stays inside TLC's 32-bit integers.
RECURSIVE Gcd(_, _)
Gcd(a, b) == IF b = 0 THEN a ELSE Gcd(b, a % b)
GetTicks(freq, time, unit) ==
  IF freq = 0 THEN 0
  ELSE LET g == Gcd(freq, unit) IN (time * (freq \div g)) \div (unit \div g)
GetMinTime(freq, unit) ==
  IF freq = 0 THEN 0 ELSE IF freq <= unit THEN unit \div freq ELSE 1
=============================================================================
