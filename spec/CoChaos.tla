------------------------------- MODULE CoChaos -------------------------------
(***************************************************************************)
(* C01: history generator for the memory-safety / termination oracle.      *)
(* The specification has no opinion about reactions here: it enumerates    *)
(* sequences over an alphabet of EVENT CLASSES derived from every          *)
(* decoder's case analysis (identifier class x command-byte class x DLC,   *)
(* ticks, driver faults, application calls).  -1 marks a byte / argument   *)
(* the harness fills from the seeded PRNG.  The oracle is instrumentation  *)
(* of the real code: ASan/UBSan, CONodeFatalError, watchdog, frame flood.  *)
(* Two-level choice (group of letters, then letter) keeps the services     *)
(* balanced instead of letting the largest sub-alphabet dominate.          *)
(***************************************************************************)
EXTENDS Integers, Sequences, FiniteSets, TLC, Json
CONSTANTS NodeId, SrvNode, WalkLen, DictName
VARIABLES hist, grp
\* grp: 0 = the next step picks a group; g > 0 = the next step picks a letter of Groups[g]
vars == <<hist, grp>>
Rx(id, dlc, bytes) == <<"rx", id, dlc>> \o bytes \o [i \in 1..(8 - Len(bytes)) |-> -1]
SdoRx == 1536 + NodeId
SdoRx2 == 1552
ANY == -1
\* multiplexers worth naming: existing ints / domains / strings / special objects, neighbours, missing
Muxes == {<<0, 16, 0>>, <<1, 16, 0>>, <<3, 16, 0>>, <<3, 16, 1>>, <<5, 16, 0>>, <<6, 16, 0>>, <<16, 16, 1>>, <<17, 16, 1>>, <<20, 16, 0>>, <<22, 16, 1>>, <<22, 16, 2>>, <<23, 16, 0>>,
          <<0, 18, 1>>, <<1, 18, 1>>, <<1, 18, 2>>, <<128, 18, 1>>, <<0, 20, 1>>, <<0, 20, 2>>, <<0, 22, 0>>, <<0, 22, 1>>, <<1, 20, 1>>, <<0, 24, 1>>, <<0, 24, 2>>, <<0, 24, 3>>, <<0, 24, 5>>,
          <<4, 24, 5>>, <<4, 24, 1>>, <<0, 26, 0>>, <<0, 26, 1>>, <<0, 33, 0>>, <<1, 33, 0>>, <<2, 33, 0>>, <<3, 33, 0>>, <<16, 33, 1>>, <<16, 33, 2>>, <<16, 33, 3>>, <<32, 33, 1>>, <<32, 33, 2>>,
          <<0, 48, 0>>, <<255, 255, 255>>, <<ANY, ANY, ANY>>}
SdoCmds == {32, 33, 34, 35, 39, 43, 47, 64, 0, 1, 16, 17, 13, 3, 96, 112, 128, 192, 194, 198, 160, 164, 161, 162, 163, 193, 197, 213, 221, 1, 2, 3, 127, 129, 130, 255, 224, 65, 144}
SdoLetters(rxid) == {Rx(rxid, 8, <<c>> \o m) : c \in SdoCmds, m \in Muxes} \cup {Rx(rxid, d, <<ANY>>) : d \in 0..8}
                    \cup {Rx(rxid, 8, <<162, a, b>>) : a \in {0, 1, 2, 3, 126, 127, 128, ANY}, b \in {0, 1, 3, 127, 128, ANY}}
                    \cup {Rx(rxid, 8, <<c, 0, 32, 16>> \o sz) : c \in {33, 194, 198}, sz \in {<<0, 0, 0, 0>>, <<9, 0, 0, 0>>, <<122, 3, 0, 0>>, <<255, 255, 255, 255>>, <<ANY, ANY, 0, 0>>}}
                    \cup {Rx(rxid, 8, <<160, m[1], m[2], m[3], bs>>) : m \in Muxes, bs \in {0, 1, 3, 127, 128, 255}}
GSdo1 == SdoLetters(SdoRx)
GSdo2 == SdoLetters(SdoRx2)
GNmt == {Rx(0, d, <<cs, t>>) : d \in {0, 1, 2, 8}, cs \in {1, 2, 128, 129, 130, ANY}, t \in {0, NodeId, ANY}}
GStart == {Rx(0, 2, <<1, 0>>), Rx(0, 2, <<1, NodeId>>)}
GSync == {Rx(128, d, <<>>) : d \in {0, 1, 8}} \cup {Rx(129, 0, <<>>)}
GPdo == {Rx(id, d, <<>>) : id \in {512 + NodeId, 768 + NodeId, 1024 + NodeId, 1280 + NodeId, 384 + NodeId, 128 + NodeId}, d \in {0, 1, 3, 8}}
GHb == {Rx(1792 + x, d, <<st>>) : x \in {0, 10, 11, 127, NodeId}, d \in {0, 1, 8}, st \in {0, 4, 5, 127, ANY}}
GLss == {Rx(2021, d, <<cs>>) : d \in {0, 8}, cs \in {4, 17, 19, 21, 23, 64, 65, 66, 67, 70, 71, 72, 73, 74, 75, 76, 90, 91, 92, 93, 94, ANY}}
        \cup {Rx(2021, 8, <<4, 1>>), Rx(2021, 8, <<21, 2, 0>>), Rx(2021, 8, <<21, 0, 0>>), Rx(2021, 8, <<17, ANY>>), Rx(2021, 8, <<19, ANY, ANY>>), Rx(2020, 8, <<>>)}
        \cup {Rx(2021, 8, <<19, 0, b>>) : b \in {0, 5, 8, 9, 10, 11, 255}} \cup {Rx(2021, 8, <<17, v>>) : v \in {0, 1, 127, 128, 255}}
GLssConf == {Rx(2021, 8, <<4, 1>>)}
GCsdoRx == {Rx(1408 + SrvNode, 8, <<c>>) : c \in {65, 67, 75, 79, 96, 32, 48, 0, 16, 1, 17, 128, 224, ANY}}
GAny == {Rx(ANY, ANY, <<>>)}
GTime == {<<"tick">>, <<"svc">>, <<"proc">>, <<"poll0">>, <<"pollerr">>, <<"fault_can", 1>>, <<"fault_can", 3>>, <<"fault_nvm", 1, 1>>, <<"fault_nvm", 2, 2>>, <<"get_err">>}
GTick == {<<"tick">>}
GApiNmt == {<<"nmt_set", m>> : m \in 0..4} \cup {<<"nmt_reset", t>> : t \in {1, 2, 0}}
           \cup {<<"emcy_set", e>> : e \in {0, 1, 3, 31, 32, 200}} \cup {<<"emcy_set", 1, 1, 2, 3, 4, 5, 6, 7>>} \cup {<<"emcy_clr", e>> : e \in {0, 1, 31, 32}} \cup {<<"emcy_reset", 0>>, <<"emcy_reset", 1>>, <<"emcy_cnt">>}
GApiPdo == {<<"tpdo_trig", k>> : k \in {0, 1, 3, 4, 200}} \cup {<<"obj_trig", 8448, 0>>, <<"obj_trig", 8450, 0>>}
           \cup {<<"wr8", 8448, 0, ANY>>, <<"wr16", 4119, 0, ANY, 0>>, <<"wr16", 6144, 5, ANY, 0>>, <<"wr16", 6148, 5, 3, 0>>, <<"wr32", 4118, 1, ANY, 0, ANY, 0>>, <<"wr32", 4101, 0, 128, 0, 0, ANY>>, <<"wr32", 4102, 0, ANY, ANY, 0, 0>>,
                 <<"wr32", 6144, 1, 133, 1, 0, ANY>>, <<"wr32", 5120, 1, 5, 2, 0, ANY>>, <<"wr32", 4112, 1, 115, 97, 118, 101>>, <<"wr32", 4113, 1, 108, 111, 97, 100>>, <<"wr8", 4099, 0, ANY>>}
GApiDict == {<<"rd32", 4099, k>> : k \in {1, 2, 3}} \cup {<<"rdbuf", 8464, 1, n>> : n \in {0, 1, 9, 300}} \cup {<<"wrbuf", 8464, 2, n, 1>> : n \in {0, 1, 30, 300}} \cup {<<"rdbuf", 8480, 1, 20>>, <<"find", ANY, ANY>>}
GApiTmr == {<<"hb_events", 10>>, <<"hb_last", 11>>, <<"csdo_up", 0, 8448, 0, 4, 2>>, <<"csdo_up", 0, 8448, 0, 9, 0>>, <<"csdo_down", 0, 8448, 0, 263, 3, 0, 1>>, <<"csdo_down", 0, 8448, 0, 3, 1, 0, 1>>}
           \cup {<<"tmr_create", 1, 2, 2>>, <<"tmr_create", 2, 1, 0>>, <<"tmr_delete", 1>>, <<"tmr_delete", 2>>, <<"tmr_delete", -2>>, <<"stop">>, <<"start">>, <<"pool">>}
\* a walk step first picks a GROUP (uniformly over this sequence: a group listed twice is twice as likely), then a letter of it:
\* with one flat alphabet 85 % of all events were SDO frames and OPERATIONAL was reached in a few per cent of the walks only
Groups == <<GSdo1, GSdo1, GSdo1, GSdo2, GNmt, GStart, GStart, GSync, GSync, GPdo, GPdo, GHb, GLss, GLss, GLssConf, GCsdoRx, GAny, GTime, GTick, GTick, GApiNmt, GApiPdo, GApiPdo, GApiDict, GApiTmr>>
Letters == UNION {Groups[g] : g \in 1..Len(Groups)}
Init == hist = <<>> /\ grp = 0
\* the last step of a walk is fixed so that every walk is emitted exactly once
Next == IF Len(hist) = WalkLen - 1 THEN hist' = Append(hist, [e |-> <<"pool">>, x |-> <<>>]) /\ grp' = 0
        ELSE IF grp = 0 THEN \E g \in 1..Len(Groups) : grp' = g /\ hist' = hist
        ELSE \E l \in Groups[grp] : hist' = Append(hist, [e |-> l, x |-> <<>>]) /\ grp' = 0
EmitWalk == Len(hist) < WalkLen \/ (PrintT(<<"WALK", ToJson([c |-> [n |-> NodeId, srv |-> SrvNode, dict |-> DictName], h |-> hist, p |-> <<>>])>>) /\ FALSE)
NLetters == Cardinality(Letters)
=============================================================================
