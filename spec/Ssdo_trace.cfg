CONSTANTS SegMax = 127
SPECIFICATION TSpec
INVARIANT InvSrvT Report
POSTCONDITION Accepted
CHECK_DEADLOCK FALSE
