CONSTANTS Max = 3  Walk = FALSE  WalkLen = 0  ProbeTicks = 7
CONSTANT Pairs <- PairsFull
INIT Init
NEXT Next
VIEW ViewM
INVARIANTS InvPool InvFire InvSchedule InvCreate
