CONSTANTS NodeId = 5  Walk = TRUE  WalkLen = 35  CfgName = "A"
CONSTANT Groups <- GA  Dflt <- DA  Letters <- LA  ProbeLetters <- PP
INIT Init
NEXT Next

CONSTRAINT EmitWalk
