------------------------------ MODULE CoSsdoGen ------------------------------
(***************************************************************************)
(* C04 / C05 (and the SDO part of C01): the CoSsdo reference server under  *)
(* an alphabet of request frames taken from the decoder's case analysis,   *)
(* in every protocol state.  A letter is a frame class; the concrete frame *)
(* is built from the letter and the current state (payload bytes depend on *)
(* the transfer number and the position, so that data left over from an    *)
(* earlier transfer is distinguishable).                                   *)
(* Letters (tuples):                                                       *)
(*  <<"expdl", m, n, s>>   expedited download of n bytes, size indicated s *)
(*  <<"expul", m>>         upload initiate (40h)                           *)
(*  <<"segdl", m, sz>>     segmented download initiate, sz = -1: no size   *)
(*  <<"dseg", t, k, c>>    download segment: toggle t, k bytes, last c     *)
(*  <<"useg", t>>          upload segment request                          *)
(*  <<"blkdl", m, sz>>     block download initiate                         *)
(*  <<"bseg", q, c>>       block segment: sequence number q, last c        *)
(*  <<"bend", n>>          block download end, n unused bytes              *)
(*  <<"blkul", m, bs>>     block upload initiate                           *)
(*  <<"bstart">> <<"back", a, bs>> <<"bfin">>                              *)
(*  <<"abort">>  <<"raw", c>>  unknown / malformed command byte c          *)
(* m indexes Mux: a sequence of <<idx, sub>> (existing and missing ones).  *)
(***************************************************************************)
EXTENDS CoSsdo, TLC, Json, SequencesExt
CONSTANTS Dict, Mux, Letters, NodeId, Walk, WalkLen, ProbeKind, PumpN, ProbeReset, ProbeB
VARIABLES s, d, tid, sync, hist, prev, ok, lastl
vars == <<s, d, tid, sync, hist, prev, ok, lastl>>
\* sync = FALSE while the reference does not know the server's state (after a
\* step the properties leave open, until the next client abort)

RxId == 1536 + NodeId
TxId == 1408 + NodeId
MuxB(m) == <<Mux[m][1] % 256, Mux[m][1] \div 256, Mux[m][2]>>
Pat(t, pos, k) == [i \in 1..k |-> ((t * 61 + (pos + i) * 7) % 251) + 1]
Pad7(bs) == bs \o [i \in 1..(7 - Len(bs)) |-> 0]
Pad4(bs) == bs \o [i \in 1..(4 - Len(bs)) |-> 0]
Sz4(n) == IF n < 0 THEN <<0, 0, 0, 0>> ELSE LE(n, 3) \o <<0>>

Frame(l, st, t) ==
  CASE l[1] = "expdl" -> <<IF l[4] THEN 35 + 4 * (4 - l[3]) ELSE 34>> \o MuxB(l[2]) \o Pad4(Pat(t, 0, l[3]))
    [] l[1] = "expul" -> <<64>> \o MuxB(l[2]) \o <<0, 0, 0, 0>>
    [] l[1] = "segdl" -> <<IF l[3] >= 0 THEN 33 ELSE 32>> \o MuxB(l[2]) \o Sz4(l[3])
    [] l[1] = "dseg"  -> <<16 * l[2] + 2 * (7 - l[3]) + (IF l[4] THEN 1 ELSE 0)>> \o Pad7(Pat(t, Len(st.got), l[3]))
    [] l[1] = "useg"  -> <<96 + 16 * l[2], 0, 0, 0, 0, 0, 0, 0>>
    [] l[1] = "blkdl" -> <<IF l[3] >= 0 THEN 194 ELSE 192>> \o MuxB(l[2]) \o Sz4(l[3])
    [] l[1] = "bseg"  -> <<l[2] + (IF l[3] THEN 128 ELSE 0)>> \o Pat(t, Len(st.got), 7)
    [] l[1] = "bend"  -> <<193 + 4 * l[2], 0, 0, 0, 0, 0, 0, 0>>
    [] l[1] = "blkul" -> <<160>> \o MuxB(l[2]) \o <<l[3], 0, 0, 0>>
    [] l[1] = "bstart" -> <<163, 0, 0, 0, 0, 0, 0, 0>>
    [] l[1] = "back"  -> <<162, l[2], l[3], 0, 0, 0, 0, 0>>
    [] l[1] = "bfin"  -> <<161, 0, 0, 0, 0, 0, 0, 0>>
    [] l[1] = "abort" -> <<128, 0, 0, 0, 0, 0, 4, 5>>
    [] l[1] = "raw"   -> <<l[2], 1, 2, 3, 4, 5, 6, 7>>

StepRec(e, x) == [e |-> e, x |-> x]
TxItems(out) == [k \in 1..Len(out) |-> <<"tx", TxId, 8>> \o out[k]]
\* which object may change in this step: the target of an open / just confirmed download
ChgOpt(s0, r) == LET o == IF s0.o # 0 /\ s0.mode \in {"dseg", "bdl", "bdw"} THEN s0.o
                          ELSE IF r.s.o # 0 /\ r.s.mode \in {"dseg", "bdl", "bdw"} THEN r.s.o ELSE 0
                 IN IF o = 0 THEN <<>> ELSE << <<"chg?", Dict[o].idx, Dict[o].sub>> >>
\* expedited download: the written object changes in this very step
ChgExp(d0, r) == LET ps == {p \in 1..Len(d0) : d0[p] # r.d[p]}
                     sq == SetToSeq(ps) IN
                 [k \in 1..Len(sq) |-> <<"chg?", d0[sq[k]].idx, d0[sq[k]].sub>>]
\* observation predicted for one received frame
Obs(s0, d0, r, synced) ==
  IF r.open = "abort" THEN << <<"resume">> >>                      \* client abort: acknowledgement unconstrained
  ELSE IF ~synced THEN <<>>
  ELSE IF r.open = "free" THEN << <<"stop">> >>
  ELSE TxItems(r.out) \o ChgOpt(s0, r) \o ChgExp(d0, r)
RxStep(f, s0, d0, r, synced) == StepRec(<<"rx", RxId, 8>> \o f, Obs(s0, d0, r, synced))
DumpStep(dd, p) == StepRec(<<"dump", dd[p].idx, dd[p].sub>>, << <<"obj", dd[p].idx, dd[p].sub>> \o dd[p].data >>)

\* control projection: object bytes, payload bytes and the transfer number do not influence
\* the protocol state machine; they stay in the state (every emitted behaviour predicts them
\* consistently along its own path) but are kept out of the fingerprint
View == <<s.mode, s.o, s.idx, s.sub, s.tb, s.ann, Len(s.got), s.blkn, s.cnt, s.err, s.pos, s.bs, s.sent, s.lastv, sync>>
Rec(step) == /\ hist' = IF Walk THEN Append(hist, step) ELSE <<step>>
             /\ prev' = View

IsInit(l) == l[1] \in {"expdl", "expul", "segdl", "blkdl", "blkul"}
\* while the reference is out of sync it stays idle; an object that a download initiate
\* names may be written by the implementation: its content becomes unknown
\* (also for upload initiates: the implementation may take a later download segment for the object it opened)
Blind(l) == IF IsInit(l) /\ l[2] <= Len(Dict) THEN [d EXCEPT ![l[2]] = Unknown(@)] ELSE d
\* C04 on the reference: number of responses of a determined step
RespOK(s0, r, f) ==
  r.open # "det" \/
  LET n == Len(r.out) IN
  \/ n = 1
  \/ n = 0 /\ s0.mode \in {"bdl", "bdw"} /\ r.s.mode = "bdl"        \* segment inside a download block
  \/ n = 0 /\ f[1] = 161 /\ s0.mode = "bue"                        \* confirmation of the end of a block upload
  \/ n >= 1 /\ r.s.mode = "bul"                                    \* the segments of an upload block
\* a positive response to an initiate concerns the named object
NamedOK(s0, l, r, f) ==
  (IsInit(l) /\ s0.mode \in {"idle", "dseg", "useg", "bui"} /\ r.open = "det" /\ r.out # <<>> /\ r.out[1][1] # 128) =>
     /\ SubSeq(r.out[1], 2, 4) = SubSeq(f, 2, 4)
     /\ (r.s.o # 0 => (Dict[r.s.o].idx = FIdx(f) /\ Dict[r.s.o].sub = FSub(f)))
\* a refusal (abort response) of an initiate in idle state changes nothing
RefuseOK(s0, d0, r) ==
  (s0.mode = "idle" /\ r.open = "det" /\ r.out # <<>> /\ r.out[1][1] = 128) => r.d = d0
Do(l) ==
  IF ~sync /\ l[1] # "abort"
  THEN /\ s' = Idle /\ d' = Blind(l) /\ tid' = (IF IsInit(l) THEN (tid + 1) % 3 ELSE tid) /\ sync' = FALSE /\ ok' = TRUE
       /\ Rec(StepRec(<<"rx", RxId, 8>> \o Frame(l, s, tid), <<>>))
  ELSE
  LET f == Frame(l, s, tid)
      r == Step(s, d, f) IN
  /\ s' = r.s /\ d' = r.d
  /\ tid' = IF IsInit(l) THEN (tid + 1) % 3 ELSE tid
  /\ sync' = IF r.open = "abort" THEN TRUE ELSE IF r.open = "free" THEN FALSE ELSE sync
  /\ ok' = (RespOK(s, r, f) /\ NamedOK(s, l, r, f) /\ RefuseOK(s, d, r))
  /\ Rec(RxStep(f, s, d, r, sync))

Init == s = Idle /\ d = Dict /\ tid = 0 /\ sync = TRUE /\ hist = <<>> /\ prev = <<>> /\ ok = TRUE /\ lastl = <<>>
Next == \E l \in Letters : Do(l) /\ lastl' = l
Spec == Init /\ [][Next]_vars

\* ---- properties on the reference (C04, C05, C01 bounds) ---------------------------
InvSrv == SrvOK(s, d)
InvC04 == ok
\* ---- probe: C05 -- client abort, then fresh conforming transfers succeed ------------
\* (folded over the reference; evaluated as an invariant: AG EF idle)
ProbeFrames(t) ==
  << Frame(<<"abort">>, Idle, t) >>
CleanSeq(t) ==   \* letters of: segmented download of object 1 of ProbeObjs (9 bytes), read back, expedited write/read
  << <<"segdl", 4, 9>>, <<"dseg", 0, 7, FALSE>>, <<"dseg", 1, 2, TRUE>>, <<"expul", 4>>, <<"useg", 0>>, <<"useg", 1>>,
     <<"expdl", 1, 4, TRUE>>, <<"expul", 1>>, <<"blkul", 5, 3>>, <<"bstart">>, <<"back", 3, 3>>, <<"back", 2, 1>>, <<"bfin">> >>
RECURSIVE RunLetters(_, _, _, _, _, _)
RunLetters(ss, dd, t, ls, synced, acc) ==
  IF ls = <<>> THEN [s |-> ss, d |-> dd, steps |-> acc, sync |-> synced]
  ELSE LET l == Head(ls)
           f == Frame(l, ss, t)
           r == Step(ss, dd, f)
           sy == IF r.open = "abort" THEN TRUE ELSE IF r.open = "free" THEN FALSE ELSE synced
           t1 == IF IsInit(l) THEN (t + 1) % 3 ELSE t
       IN IF ~synced /\ l[1] # "abort"
          THEN RunLetters(Idle, IF IsInit(l) /\ l[2] <= Len(dd) THEN [dd EXCEPT ![l[2]] = Unknown(@)] ELSE dd,
                          t1, Tail(ls), FALSE, Append(acc, StepRec(<<"rx", RxId, 8>> \o f, <<>>)))
          ELSE RunLetters(r.s, r.d, t1, Tail(ls), sy, Append(acc, RxStep(f, ss, dd, r, synced)))
\* NMT reset communication (C05: "the same holds after an NMT reset communication"): the
\* servers are re-initialised; the step itself (boot-up frame etc.) belongs to C09 / C20
ResetStep == StepRec(<<"rx", 0, 2, 130, NodeId, 0, 0, 0, 0, 0, 0>>, << <<"resume">> >>)
ProbeFrom(ss, dd, t, sy) ==
  LET dv == IF ss.o # 0 /\ ss.mode \in {"dseg", "bdl", "bdw"} THEN [dd EXCEPT ![ss.o] = Unknown(@)] ELSE dd     \* the target of an open download is in flux
      clean == IF ProbeKind = "full" THEN CleanSeq(t) ELSE SubSeq(CleanSeq(t), 1, 6)
      a == IF ProbeReset
           THEN LET b == RunLetters(Idle, DropTransfer(ss, dd), t, clean, TRUE, <<>>) IN [b EXCEPT !.steps = <<ResetStep>> \o @]
           ELSE RunLetters(ss, dd, t, << <<"useg", 0>>, <<"abort">> >> \o clean, sy, <<>>)
  \* the content the edge left behind is dumped first (an open download may still change its target
  \* afterwards, a confirmed one may not), then the continuation, then the content again
  IN <<DumpStep(dv, 1), DumpStep(dv, 4), DumpStep(dv, 5), DumpStep(dv, 9)>> \o a.steps \o <<DumpStep(a.d, 4)>> \o (IF ProbeKind = "full" THEN <<DumpStep(a.d, 1), DumpStep(a.d, 5)>> ELSE <<>>)
Probe == ProbeFrom(s, d, tid, sync)
\* second characterisation sequence, WITHOUT a client abort in front: a client that gave up a transfer (its abort
\* frame may be lost) simply starts the next one; implementation state that only the abort path resets shows here
ProbeNoAbort ==
  LET a == RunLetters(s, d, tid, SubSeq(CleanSeq(tid), 1, 6) \o << <<"blkdl", 5, 30>>, <<"bseg", 1, FALSE>>, <<"bseg", 2, FALSE>>, <<"bseg", 3, FALSE>>, <<"bseg", 1, FALSE>>, <<"bseg", 2, TRUE>>, <<"bend", 5>>, <<"blkul", 5, 2>>, <<"bstart">>, <<"back", 2, 3>>, <<"back", 3, 3>>, <<"bfin">> >>, sync, <<>>)
  IN a.steps \o <<DumpStep(a.d, 4), DumpStep(a.d, 5)>>
\* pumping: a letter that leaves the control state unchanged is repeated PumpN times, then the probe
PumpRec == LET ls == [i \in 1..PumpN |-> lastl]
               a == RunLetters(s, d, tid, ls, sync, <<>>)
           IN [c |-> [n |-> NodeId, k |-> SegMax], s |-> View, h |-> a.steps, d |-> View, p |-> ProbeFrom(a.s, a.d, tid, a.sync)]
\* C05 on the reference: after the abort the clean transfers are all determined and succeed
InvNoWedge ==
  LET a == RunLetters(s, d, tid, << <<"abort">> >> \o CleanSeq(tid), sync, <<>>) IN
  /\ a.s = Idle /\ a.sync
  /\ a.d[4].data = Pat((tid + 1) % 3, 0, 9)
  /\ a.d[1].data = Pat((tid + 2) % 3, 0, 4)
  /\ \A k \in 2..Len(a.steps) : a.steps[k].x # <<>> \/ k = Len(a.steps)

Cfg == [n |-> NodeId, k |-> SegMax]
EmitEdge == hist = <<>> \/ (/\ PrintT(<<"EDGE", ToJson([c |-> Cfg, s |-> prev, e |-> hist[Len(hist)], d |-> View, p |-> Probe])>>)
                            /\ (~ProbeB \/ ~sync \/ PrintT(<<"EDGE", ToJson([c |-> Cfg, s |-> prev, h |-> <<hist[Len(hist)]>>, d |-> View, p |-> ProbeNoAbort])>>))
                            /\ (PumpN = 0 \/ prev # View \/ IsInit(lastl) \/ PrintT(<<"EDGE", ToJson(PumpRec)>>)))
EmitWalk == Len(hist) < WalkLen \/ (PrintT(<<"WALK", ToJson([c |-> Cfg, h |-> hist, p |-> Probe])>>) /\ FALSE)
\* VIEW of the model-checking configurations: TLC evaluates invariants only on states it has not seen before, and "seen" is
\* decided on the VIEW; a step verdict kept in a ghost variable must therefore be part of it, or a violating edge INTO A KNOWN
\* STATE would be discarded unexamined (the generation configurations keep the plain View: the verdict is not behaviour)
ViewM == <<View, ok>>
=============================================================================
