CONSTANTS Max = 4  Walk = TRUE  WalkLen = 40
CONSTANT Pairs <- PairsPre  Scheds2 <- S2  SchedsP <- SP
INIT Init
NEXT Next
CONSTRAINT EmitWalk
