CONSTANTS NodeId = 5  NT = 1  NR = 1  Walk = TRUE  WalkLen = 40  PoolN = 16  CfgName = "C16B"
CONSTANT Objs <- MCObjs  ObjOrder <- MCOrder  V0 <- MCV0  TC0 <- TC16  RC0 <- RC16  Sync0 <- S16B  Letters <- L16B  ProbeLetters <- P16  Probe2Letters <- PNone
INIT Init
NEXT Next

CONSTRAINT EmitWalk
