---- MODULE MCNode_TTrace_1790465341 ----
EXTENDS Sequences, MCNode, TLCExt, Toolbox, Naturals, TLC

_expression ==
    LET MCNode_TEExpression == INSTANCE MCNode_TEExpression
    IN MCNode_TEExpression!expression
----

_trace ==
    LET MCNode_TETrace == INSTANCE MCNode_TETrace
    IN MCNode_TETrace!trace
----

_inv ==
    ~(
        TLCGet("level") = Len(_TETrace)
        /\
        gh = ([c09 |-> FALSE, c10 |-> TRUE, c11 |-> TRUE, c20 |-> TRUE])
        /\
        hist = (<<[e |-> <<"rx", 1541, 8, 1, 2, 3, 0, 0, 0, 0, 0>>, x |-> <<<<"tx", 1413, 8, 128, 2, 3, 0, -1, -1, -1, -1>>>>]>>)
        /\
        prev = ([app |-> <<>>, mode |-> 2, r8 |-> 0, hbRem |-> 2, hc |-> <<[node |-> 10, time |-> 2, st |-> 0, ev |-> 0, rem |-> 0, on |-> TRUE]>>, hbT |-> 2, v8 |-> 0, err1 |-> FALSE])
        /\
        n = ([app |-> <<>>, mode |-> 2, r8 |-> 0, hbRem |-> 2, hc |-> <<[node |-> 10, time |-> 2, st |-> 0, ev |-> 0, rem |-> 0, on |-> TRUE]>>, hbT |-> 2, v8 |-> 0, err1 |-> FALSE])
    )
----

_init ==
    /\ n = _TETrace[1].n
    /\ prev = _TETrace[1].prev
    /\ gh = _TETrace[1].gh
    /\ hist = _TETrace[1].hist
----

_next ==
    /\ \E i,j \in DOMAIN _TETrace:
        /\ \/ /\ j = i + 1
              /\ i = TLCGet("level")
        /\ n  = _TETrace[i].n
        /\ n' = _TETrace[j].n
        /\ prev  = _TETrace[i].prev
        /\ prev' = _TETrace[j].prev
        /\ gh  = _TETrace[i].gh
        /\ gh' = _TETrace[j].gh
        /\ hist  = _TETrace[i].hist
        /\ hist' = _TETrace[j].hist

\* Uncomment the ASSUME below to write the states of the error trace
\* to the given file in Json format. Note that you can pass any tuple
\* to `JsonSerialize`. For example, a sub-sequence of _TETrace.
    \* ASSUME
    \*     LET J == INSTANCE Json
    \*         IN J!JsonSerialize("MCNode_TTrace_1790465341.json", _TETrace)

=============================================================================

 Note that you can extract this module `MCNode_TEExpression`
  to a dedicated file to reuse `expression` (the module in the 
  dedicated `MCNode_TEExpression.tla` file takes precedence 
  over the module `MCNode_TEExpression` below).

---- MODULE MCNode_TEExpression ----
EXTENDS Sequences, MCNode, TLCExt, Toolbox, Naturals, TLC

expression == 
    [
        \* To hide variables of the `MCNode` spec from the error trace,
        \* remove the variables below.  The trace will be written in the order
        \* of the fields of this record.
        n |-> n
        ,prev |-> prev
        ,gh |-> gh
        ,hist |-> hist
        
        \* Put additional constant-, state-, and action-level expressions here:
        \* ,_stateNumber |-> _TEPosition
        \* ,_nUnchanged |-> n = n'
        
        \* Format the `n` variable as Json value.
        \* ,_nJson |->
        \*     LET J == INSTANCE Json
        \*     IN J!ToJson(n)
        
        \* Lastly, you may build expressions over arbitrary sets of states by
        \* leveraging the _TETrace operator.  For example, this is how to
        \* count the number of times a spec variable changed up to the current
        \* state in the trace.
        \* ,_nModCount |->
        \*     LET F[s \in DOMAIN _TETrace] ==
        \*         IF s = 1 THEN 0
        \*         ELSE IF _TETrace[s].n # _TETrace[s-1].n
        \*             THEN 1 + F[s-1] ELSE F[s-1]
        \*     IN F[_TEPosition - 1]
    ]

=============================================================================



Parsing and semantic processing can take forever if the trace below is long.
 In this case, it is advised to uncomment the module below to deserialize the
 trace from a generated binary file.

\*
\*---- MODULE MCNode_TETrace ----
\*EXTENDS IOUtils, MCNode, TLC
\*
\*trace == IODeserialize("MCNode_TTrace_1790465341.bin", TRUE)
\*
\*=============================================================================
\*

---- MODULE MCNode_TETrace ----
EXTENDS MCNode, TLC

trace == 
    <<
    ([gh |-> [c09 |-> TRUE, c10 |-> TRUE, c11 |-> TRUE, c20 |-> TRUE],hist |-> <<>>,prev |-> <<>>,n |-> [app |-> <<>>, mode |-> 2, r8 |-> 0, hbRem |-> 2, hc |-> <<[node |-> 10, time |-> 2, st |-> 0, ev |-> 0, rem |-> 0, on |-> TRUE]>>, hbT |-> 2, v8 |-> 0, err1 |-> FALSE]]),
    ([gh |-> [c09 |-> FALSE, c10 |-> TRUE, c11 |-> TRUE, c20 |-> TRUE],hist |-> <<[e |-> <<"rx", 1541, 8, 1, 2, 3, 0, 0, 0, 0, 0>>, x |-> <<<<"tx", 1413, 8, 128, 2, 3, 0, -1, -1, -1, -1>>>>]>>,prev |-> [app |-> <<>>, mode |-> 2, r8 |-> 0, hbRem |-> 2, hc |-> <<[node |-> 10, time |-> 2, st |-> 0, ev |-> 0, rem |-> 0, on |-> TRUE]>>, hbT |-> 2, v8 |-> 0, err1 |-> FALSE],n |-> [app |-> <<>>, mode |-> 2, r8 |-> 0, hbRem |-> 2, hc |-> <<[node |-> 10, time |-> 2, st |-> 0, ev |-> 0, rem |-> 0, on |-> TRUE]>>, hbT |-> 2, v8 |-> 0, err1 |-> FALSE]])
    >>
----


=============================================================================

---- CONFIG MCNode_TTrace_1790465341 ----
CONSTANTS
    NodeId = 5
    HbInit = 2
    Walk = FALSE
    WalkLen = 0
    EvCap = 3
    PoolN = 16
    Letters <- L09
    HcInit <- HC09
    ProbeLetters <- P09

INVARIANT
    _inv

CHECK_DEADLOCK
    \* CHECK_DEADLOCK off because of PROPERTY or INVARIANT above.
    FALSE

INIT
    _init

NEXT
    _next

CONSTANT
    _TETrace <- _trace

ALIAS
    _expression
=============================================================================
\* Generated on Sat Sep 26 23:29:03 UTC 2026