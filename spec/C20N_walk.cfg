CONSTANTS NodeId = 5  HbInit = 2  Walk = TRUE  WalkLen = 40  EvCap = 3  PoolN = 16
CONSTANT Letters <- L20  HcInit <- HC20  ProbeLetters <- P20
INIT Init
NEXT Next

CONSTRAINT EmitWalk

