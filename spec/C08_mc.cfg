CONSTANTS Max = 3  Walk = FALSE  WalkLen = 0
CONSTANT Pairs <- PairsPre  Scheds2 <- S2  SchedsP <- SP
INIT Init
NEXT NextI
VIEW ViewM
INVARIANTS InvPoolPre InvClaims InvOwed
