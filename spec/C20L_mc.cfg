CONSTANTS NodeId0 = 5  Walk = FALSE  WalkLen = 0
CONSTANT Ident <- ID  Letters <- L20L  ProbeLetters <- PL20
INIT Init
NEXT Next
VIEW ViewM
INVARIANT InvC18 InvC20L
