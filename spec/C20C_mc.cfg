CONSTANTS Idx = 8448  Sub = 0  TxId = 1545  RxId = 1417  NodeId = 5  SrvNode = 9  PoolN = 16  Walk = FALSE  WalkLen = 0  ScenOn = FALSE
CONSTANT Letters <- LC20  ProbeLetters <- PC20
INIT Init
NEXT Next
VIEW ViewM
INVARIANT InvC19
