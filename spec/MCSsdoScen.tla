----------------------------- MODULE MCSsdoScen -----------------------------
EXTENDS CoSsdoScen
O(i, s, r, w, k, dt) == [idx |-> i, sub |-> s, r |-> r, w |-> w, kind |-> k, data |-> dt, abort |-> <<>>]
DomPat(n) == [i \in 1..n |-> ((i - 1) * 13 + 5) % 256]
Str(n) == [i \in 1..n |-> 65 + (i % 26)]
DomSizes == <<1, 2, 4, 5, 7, 8, 14, 15, 16, 21, 22, 28, 29, 42, 43, 888, 889, 890, 896, 1777, 1778, 1780, 4000>>
StrSizes == <<1, 3, 4, 5, 7, 8, 14, 15, 889, 890>>
NInt == 5
MCDict == << O(8192,0,TRUE,TRUE,"int",<<17>>), O(8193,0,TRUE,TRUE,"int",<<1,2>>), O(8194,0,TRUE,TRUE,"int",<<1,2,3,4>>),
             O(8195,0,TRUE,FALSE,"int",<<9,8,7,6>>), O(8196,0,FALSE,TRUE,"int",<<0,0,0,0>>) >>
          \o [i \in 1..Len(DomSizes) |-> O(8208, i, TRUE, TRUE, "dom", DomPat(DomSizes[i]))]
          \o [i \in 1..Len(StrSizes) |-> O(8224, i, TRUE, FALSE, "str", Str(StrSizes[i]))]
DomP(i) == NInt + i
StrP(i) == NInt + Len(DomSizes) + i
Dl(p, mode, L, sbit, loss, seed) == [t |-> "dl", p |-> p, mode |-> mode, L |-> L, sbit |-> sbit, loss |-> loss, bs |-> 0, plan |-> <<>>, seed |-> seed, pre |-> 0]
Ul(p, mode, bs, plan) == [t |-> "ul", p |-> p, mode |-> mode, L |-> 0, sbit |-> FALSE, loss |-> <<0,0>>, bs |-> bs, plan |-> plan, seed |-> 0, pre |-> 0]
\* the same scenarios behind an abandoned segmented download / upload of the 21-byte domain
WithPre(S, k) == {[sc EXCEPT !.pre = k] : sc \in S}
MCPreObj == DomP(10)
Bool == {TRUE, FALSE}
DlInts == {Dl(p, "exp", Len(MCDict[p].data), sb, <<0,0>>, 3) : p \in {1,2,3,5}, sb \in Bool}
            \cup {Dl(p, m, Len(MCDict[p].data), sb, <<0,0>>, 5) : p \in {1,2,3,5}, sb \in Bool, m \in {"seg", "blk"}}
DlDomFull(I, modes, losses) == {Dl(DomP(i), m, DomSizes[i], sb, ls, 11 + i) : i \in I, m \in modes, sb \in Bool, ls \in losses}
DlDomPart(I, modes) == {Dl(DomP(i), m, DomSizes[i] - 3, sb, <<0,0>>, 40 + i) : i \in {j \in I : DomSizes[j] > 3}, m \in modes, sb \in Bool}
DlDomExp == {Dl(DomP(pr[1]), "exp", pr[2], TRUE, <<0,0>>, 7) : pr \in {<<1,1>>, <<2,1>>, <<2,2>>, <<3,1>>, <<3,2>>, <<3,3>>, <<3,4>>, <<4,4>>, <<4,2>>}}
UlAll(I, J) == {Ul(p, "seg", 0, <<>>) : p \in (1..4) \cup {DomP(i) : i \in I} \cup {StrP(j) : j \in J}}
UlBlkSet(I, J, BS, Plans) == {Ul(p, "blk", bs, pl) : p \in {DomP(i) : i \in I} \cup {StrP(j) : j \in J} \cup {3}, bs \in BS, pl \in Plans}
LossQ == {<<0,0>>, <<1,1>>, <<1,2>>, <<2,1>>, <<1,126>>, <<2,3>>}
PlansQ == {<<>>, << <<0, 127>> >>, << <<1, 127>> >>, << <<2, 3>> >>, << <<-1, 2>>, <<1, 5>> >>, << <<3, 1>>, <<0, 127>>, <<1, 2>> >>, << <<63, 127>> >>, << <<126, 127>> >>}
AllDom == 1..Len(DomSizes)
SmallDom == {i \in AllDom : DomSizes[i] <= 43}
ScenDlQ == DlInts \cup DlDomExp \cup DlDomFull(AllDom \ {23}, {"seg"}, {<<0,0>>}) \cup DlDomFull(AllDom \ {23}, {"blk"}, {<<0,0>>, <<1,2>>})
           \cup DlDomFull({9, 17, 18, 19, 21, 22}, {"blk"}, LossQ) \cup DlDomPart({3, 6, 9, 17, 22}, {"seg", "blk"})
ScenDlPre == WithPre(DlInts \cup DlDomExp \cup DlDomFull({1, 3, 4, 6, 8, 9, 10, 12, 17}, {"seg", "blk"}, {<<0,0>>, <<1,2>>}), 1)
             \cup WithPre(DlDomFull({3, 4, 6, 8, 9, 10, 12, 17}, {"seg", "blk"}, {<<0,0>>}), 2)
ScenUlPre == WithPre(UlAll({1, 3, 6, 9, 10, 12, 17}, {2, 5, 9}) \cup UlBlkSet({3, 6, 9, 10, 12}, {5}, {3, 127}, {<<>>, << <<1, 127>> >>}), 1)
             \cup WithPre(UlAll({1, 3, 6, 9, 10, 12}, {2, 5}) \cup UlBlkSet({6, 10, 12}, {5}, {3, 127}, {<<>>, << <<1, 127>> >>}), 2)
ScenDlT == DlInts \cup DlDomExp \cup DlDomFull(AllDom, {"seg"}, {<<0,0>>}) \cup DlDomFull(AllDom, {"blk"}, LossQ \cup {<<3,5>>, <<1,125>>, <<2,126>>})
           \cup DlDomPart(AllDom, {"seg", "blk"})
ScenUlQ == UlAll(AllDom \ {23}, 1..Len(StrSizes)) \cup UlBlkSet({1, 3, 4, 6, 9, 10, 12}, {2, 5}, {1, 2, 3, 7, 64, 127}, PlansQ)
           \cup UlBlkSet({17, 18, 19, 22}, {9, 10}, {3, 64, 127}, PlansQ)
ScenUlT == UlAll(AllDom, 1..Len(StrSizes)) \cup UlBlkSet(AllDom \ {23}, 1..Len(StrSizes), {1, 2, 3, 7, 64, 126, 127}, PlansQ) \cup UlBlkSet({23}, {}, {7, 127}, PlansQ)
ScenQ == ScenDlQ \cup ScenUlQ
ScenTiny == DlInts \cup DlDomExp \cup DlDomFull(1..12, {"seg", "blk"}, {<<0,0>>}) \cup UlAll(1..12, 1..8) \cup UlBlkSet({1,3,6,9}, {2,5}, {1,2,3,7}, PlansQ)
Sc_C02_scen == ScenDlQ \cup ScenDlPre
Sc_C02_scen_t == ScenDlT \cup ScenDlPre
Sc_C03_scen == ScenUlQ \cup ScenUlPre
Sc_C03_scen_t == ScenUlT \cup ScenUlPre
Sc_C02_tiny == ScenTiny
==============================================================================
