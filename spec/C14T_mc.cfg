CONSTANTS NodeId = 5  NT = 1  NR = 1  Walk = FALSE  WalkLen = 0  PoolN = 16  CfgName = "C14T"
CONSTANT Objs <- MCObjs  ObjOrder <- MCOrder  V0 <- MCV0  TC0 <- TC14  RC0 <- RC14  Sync0 <- S12  Letters <- L14T  ProbeLetters <- P14  Probe2Letters <- PNone
INIT Init
NEXT Next
VIEW ViewM
INVARIANT InvPdo
