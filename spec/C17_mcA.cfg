CONSTANTS NodeId = 5  Walk = FALSE  WalkLen = 0  CfgName = "A"
CONSTANT Groups <- GA  Dflt <- DA  Letters <- LA  ProbeLetters <- PP
INIT Init
NEXT Next
VIEW ViewM
INVARIANT InvC17
