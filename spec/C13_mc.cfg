CONSTANTS NodeId = 5  NT = 1  NR = 3  Walk = FALSE  WalkLen = 0  PoolN = 16  CfgName = "C13"
CONSTANT Objs <- MCObjs  ObjOrder <- MCOrder  V0 <- MCV0  TC0 <- TC13  RC0 <- RC13  Sync0 <- S12  Letters <- L13  ProbeLetters <- P13  Probe2Letters <- PNone
INIT Init
NEXT Next
VIEW ViewM
INVARIANT InvPdo
