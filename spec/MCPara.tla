-------------------------------- MODULE MCPara --------------------------------
EXTENDS CoParaGen
Short(subs) == {<<"shortsig", i, k, n>> : i \in {4112, 4113}, k \in subs, n \in {1, 2, 3}}
G(off, size, type, en) == [off |-> off, size |-> size, type |-> type, en |-> en]
\* layout A: one group (communication parameters); layout B: sub 1 = all, sub 2 = application (reset node), sub 3 = communication
GA == << G(0, 3, 2, TRUE) >>
DA == <<11, 12, 13>>
GB == << G(0, 5, 1, TRUE), G(0, 2, 1, TRUE), G(2, 3, 2, TRUE) >>
GC == << G(0, 5, 1, TRUE), G(0, 2, 1, TRUE), G(2, 3, 2, FALSE) >>
DB == <<21, 22, 31, 32, 33>>
\* layout D: as B, but the communication group sits at sub-index 4 and sub-index 3 does not exist (a gap below the highest sub-index)
GD == << G(0, 5, 1, TRUE), G(0, 2, 1, TRUE), G(0, 0, 0, FALSE), G(2, 3, 2, TRUE) >>
LD == {<<"save", k>> : k \in {1, 3, 4}} \cup {<<"load", k>> : k \in {1, 2, 3, 4}} \cup {<<"poke", 0, 77>>, <<"poke", 4, 99>>, <<"restart">>, <<"resetcom">>}
LA == {<<"save", 1>>, <<"load", 1>>, <<"badsig", 4112, 1, <<115, 97, 118, 100>>>>, <<"badsig", 4113, 1, <<115, 97, 118, 101>>>>, <<"poke", 0, 77>>, <<"poke", 2, 88>>, <<"poke", 0, 78>>,
       <<"restart">>, <<"resetnode">>, <<"resetcom">>, <<"fault", 1, 1>>, <<"fault", 2, 2>>, <<"geterr">>} \cup Short({1})
LB == {<<"save", k>> : k \in 1..3} \cup {<<"load", k>> : k \in 1..3} \cup {<<"badsig", 4112, 2, <<0, 0, 0, 0>>>>, <<"badsig", 4113, 1, <<108, 111, 97, 101>>>>}
      \cup {<<"poke", 0, 77>>, <<"poke", 3, 88>>, <<"poke", 1, 66>>, <<"poke", 4, 99>>, <<"restart">>, <<"resetnode">>, <<"resetcom">>, <<"fault", 1, 1>>, <<"fault", 2, 1>>, <<"geterr">>} \cup Short({1, 3})
PP == << <<"geterr">>, <<"dump">>, <<"nvm">>, <<"restart">>, <<"dump">>, <<"geterr">>, <<"resetcom">>, <<"dump">> >>
===============================================================================
