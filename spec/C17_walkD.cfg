CONSTANTS NodeId = 5  Walk = TRUE  WalkLen = 35  CfgName = "D"
CONSTANT Groups <- GD  Dflt <- DB  Letters <- LD  ProbeLetters <- PP
INIT Init
NEXT Next

CONSTRAINT EmitWalk
