------------------------------ MODULE CoTmrGen ------------------------------
(***************************************************************************)
(* C07: generation / model-checking wrapper around CoTmr.                  *)
(* Alphabet: create(start, cycle), delete(handle), tick (= service +       *)
(* process).  Ghost variable due is the *reference schedule* the property  *)
(* talks about (ticks until each live action is due); the invariants tie   *)
(* the delta-list model to it, the emitted behaviours tie the C code to    *)
(* the delta-list model.                                                   *)
(***************************************************************************)
EXTENDS CoTmr, TLC, Json
CONSTANTS Pairs,       \* <<start, cycle>> values offered to create
          Walk,        \* TRUE: accumulate history (simulation), FALSE: last step only
          WalkLen,     \* walks are emitted at this length
          ProbeTicks   \* length of the drain probe
VARIABLES t, due, hist, prev, okfire
vars == <<t, due, hist, prev, okfire>>

View == <<t, due>>

Step(e, x) == [e |-> e, x |-> x]
Rec(step) == /\ hist' = IF Walk THEN Append(hist, step) ELSE <<step>>
             /\ prev' = View

FireItems(fired) == [k \in 1..Len(fired) |-> <<"fire", fired[k]>>]

\* reference schedule after one tick
DueAfterTick(d, cyc) == [i \in Ids |-> IF d[i] = 1 THEN (IF cyc[i] > 0 THEN cyc[i] ELSE -1)
                                       ELSE IF d[i] > 1 THEN d[i] - 1 ELSE d[i]]

DoCreate(s, c) ==
  LET r == Create(t, s, c)
      h == IF r.ret >= 0 THEN r.ret ELSE Max IN
  /\ t' = r.st
  /\ due' = IF r.ret >= 0 THEN [due EXCEPT ![r.ret] = IF s = 0 THEN c ELSE s] ELSE due
  /\ okfire' = TRUE
  /\ Rec(Step(<<"tmr_create", h, s, c>>, << <<"ret", IF r.ret >= 0 THEN 0 ELSE -1>> >>))

DoDelete(h) ==
  LET r == Delete(t, h) IN
  /\ t' = r.st
  /\ due' = IF r.ret = 0 THEN [due EXCEPT ![h] = -1] ELSE due
  /\ okfire' = ((r.ret = 0) <=> (h \in Ids /\ due[h] > 0))
  /\ Rec(Step(<<"tmr_delete", h>>, << <<"ret", r.ret>> >>))

DoTick ==
  LET p == Tick(t) IN
  /\ t' = p.st
  /\ due' = DueAfterTick(due, t.cyc)
  \* exactly the actions due on this tick fire, each once
  /\ okfire' = /\ {p.fired[k] : k \in 1..Len(p.fired)} = {i \in Ids : due[i] = 1}
               /\ Len(p.fired) = Cardinality({i \in Ids : due[i] = 1})
  /\ Rec(Step(<<"tick">>, FireItems(p.fired)))

Init == t = TmrInit /\ due = [i \in Ids |-> -1] /\ hist = <<>> /\ prev = <<>> /\ okfire = TRUE
Next == \/ \E pr \in Pairs : DoCreate(pr[1], pr[2])
        \/ \E h \in -3..Max-1 : DoDelete(h)
        \/ DoTick
Spec == Init /\ [][Next]_vars

\* ---- properties (C07) ------------------------------------------------------
InvPool == PoolOK(t) /\ t.elapsed = <<>>
InvFire == okfire
RECURSIVE Cum(_, _)
Cum(use, k) == IF k = 1 THEN t.hw ELSE Cum(use, k-1) + use[k].delta
\* every queued action sits at cumulative distance due[id]; queued <=> due > 0 <=> live
InvSchedule ==
  /\ \A k \in 1..Len(t.use) : \A j \in 1..Len(t.use[k].acts) : due[t.use[k].acts[j]] = Cum(t.use, k)
  /\ \A i \in Ids : (due[i] > 0) <=> (i \in Live(t))
  /\ \A i \in Ids : (i \in Live(t)) <=> (\E k \in 1..Len(t.use) : \E j \in 1..Len(t.use[k].acts) : t.use[k].acts[j] = i)
\* creation fails iff no slot is free or both times are zero (checked on the step just taken)
InvCreate == hist # <<>> /\ hist[Len(hist)].e[1] = "tmr_create" =>
               LET e == hist[Len(hist)].e IN
               (hist[Len(hist)].x[1][2] = -1) <=> (e[2] = Max)

\* ---- probe: make the content of t observable -------------------------------
RECURSIVE Drain(_, _)
Drain(tt, k) == IF k = 0 THEN <<>>
                ELSE LET p == Tick(tt) IN <<Step(<<"tick">>, FireItems(p.fired))>> \o Drain(p.st, k-1)
RECURSIVE DrainSt(_, _)
DrainSt(tt, k) == IF k = 0 THEN tt ELSE DrainSt(Tick(tt).st, k-1)
PoolStep(tt) == Step(<<"pool">>, << <<"acts", Len(tt.freeA)>>, <<"cons", 1>> >>)
Probe(tt) ==
  LET t2 == DrainSt(tt, ProbeTicks)
      r  == Create(t2, 1, 0)
      h  == IF r.ret >= 0 THEN r.ret ELSE Max
      p3 == Tick(r.st)
  IN <<PoolStep(tt)>> \o Drain(tt, ProbeTicks) \o <<PoolStep(t2)>>
     \o <<Step(<<"tmr_create", h, 1, 0>>, << <<"ret", IF r.ret >= 0 THEN 0 ELSE -1>> >>)>>
     \o <<Step(<<"tick">>, FireItems(p3.fired))>> \o <<PoolStep(p3.st)>>

EmitEdge == hist = <<>> \/ PrintT(<<"EDGE", ToJson([c |-> Max, s |-> prev, e |-> hist[Len(hist)], d |-> View, p |-> Probe(t)])>>)
EmitWalk == Len(hist) < WalkLen \/ (PrintT(<<"WALK", ToJson([c |-> Max, h |-> hist, p |-> Probe(t)])>>) /\ FALSE)
\* VIEW of the model-checking configurations: TLC evaluates invariants only on states it has not seen before, and "seen" is
\* decided on the VIEW; a step verdict kept in a ghost variable must therefore be part of it, or a violating edge INTO A KNOWN
\* STATE would be discarded unexamined (the generation configurations keep the plain View: the verdict is not behaviour)
ViewM == <<View, okfire, InvCreate>>
=============================================================================
