CONSTANTS NodeId = 5  NT = 1  NR = 1  Walk = FALSE  WalkLen = 0  PoolN = 16  CfgName = "C20P"
CONSTANT Objs <- MCObjs  ObjOrder <- MCOrder  V0 <- MCV0  TC0 <- TC20  RC0 <- RC20  Sync0 <- S20  Letters <- L20P  ProbeLetters <- P20P  Probe2Letters <- PNone
INIT Init
NEXT Next
VIEW ViewM
INVARIANT InvPdo
