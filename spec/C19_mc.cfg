CONSTANTS Idx = 8448  Sub = 0  TxId = 1545  RxId = 1417  NodeId = 5  SrvNode = 9  PoolN = 16  Walk = FALSE  WalkLen = 0  ScenOn = TRUE
CONSTANT Letters <- LC  ProbeLetters <- PC
INIT Init
NEXT Next
VIEW ViewM
INVARIANT InvC19
