CONSTANTS NodeId = 5  PoolN = 16  WalkLen = 45  HbInit = 3  NT = 2  NR = 2  Depth = 2  SrvNode = 9  CfgName = "full"
CONSTANT RandLetter <- FRand  NRand <- FNRand  HcInit <- FHc  Objs <- FObjs  ObjOrder <- FOrder  V0 <- FV0  TC0 <- FTC  RC0 <- FRC  Sync0 <- FSync  Tbl <- FTbl  Groups <- FGroups  ProbeLetters <- FProbe
INIT Init
NEXT Next
INVARIANT InvFull
CONSTRAINT EmitWalk
