----------------------------- MODULE CoTmrPreGen -----------------------------
(***************************************************************************)
(* C08 wrapper.  Two uses of CoTmrPre:                                     *)
(*  Interleaving model (SpecI): task-level sub-steps and the tick          *)
(*  interrupt as separate TLC actions, with ghost bookkeeping of owed      *)
(*  expiries; invariants = the C08 claims.                                 *)
(*  Generation model (Init/Next): whole API calls with an explicit         *)
(*  injection schedule as event parameter; emitted for replay.             *)
(***************************************************************************)
EXTENDS CoTmrPre, TLC, Json
CONSTANTS Pairs, Scheds2, SchedsP, Walk, WalkLen
VARIABLES t, pc, owed, dead, hist, prev, bad
vars == <<t, pc, owed, dead, hist, prev, bad>>
\* owed[i] : expiries of action i that have elapsed (moved to the elapsed list
\*           by the interrupt) and not yet been run or cancelled
\* dead    : ids whose deletion was confirmed and that were not re-created
\* bad     : set when a claim is violated by the step just taken

View == <<t, pc, owed, dead>>
ViewG == t
Step(e, x) == [e |-> e, x |-> x]
Rec(step) == /\ hist' = IF Walk THEN Append(hist, step) ELSE <<step>>
             /\ prev' = ViewG

Init == /\ t = TmrInit /\ pc = PcIdle /\ owed = [i \in Ids |-> 0] /\ dead = {}
        /\ hist = <<>> /\ prev = <<>> /\ bad = FALSE

\* ---------------- interleaving model ------------------------------------
ITick == LET s == Service(t) IN
         /\ t' = s.st
         /\ owed' = IF s.ret = 1 THEN [i \in Ids |-> IF \E k \in 1..Len(Head(t.use).acts) : Head(t.use).acts[k] = i
                                                     THEN owed[i] + 1 ELSE owed[i]]
                    ELSE owed
         \* a cyclic action is re-queued before its callback runs, so it can elapse once more
         \* while that callback is still pending -- but never a third time
         /\ bad' = (s.ret = 1 /\ \E i \in Ids : owed'[i] > 2)
         /\ UNCHANGED <<pc, dead, hist, prev>>
IStart == /\ ~pc.active /\ pc' = [PcIdle EXCEPT !.active = TRUE] /\ UNCHANGED <<t, owed, dead, hist, prev, bad>>
ITask == /\ pc.active
         /\ LET n == PNext(t, pc) IN
            /\ t' = n.t /\ pc' = n.pc
            /\ owed' = IF n.fire >= 0 THEN [owed EXCEPT ![n.fire] = @ - 1] ELSE owed
            \* a callback runs only for an owed expiry, never for a deleted action
            /\ bad' = \/ (n.fire >= 0 /\ (owed[n.fire] < 1 \/ n.fire \in dead))
                       \* no action is lost: when Process returns nothing is owed
                       \/ (PKind(t, pc) = "end" /\ \E i \in Ids : owed[i] # 0)
         /\ UNCHANGED <<dead, hist, prev>>
ICreate(s, c) == /\ ~pc.active
                 /\ LET r == Create(t, s, c) IN
                    /\ t' = r.st
                    /\ dead' = IF r.ret >= 0 THEN dead \ {r.ret} ELSE dead
                    /\ bad' = (r.ret >= 0 /\ owed[r.ret] # 0)
                 /\ UNCHANGED <<pc, owed, hist, prev>>
IDelete(id) == /\ ~pc.active
               /\ LET r == Delete(t, id) IN
                  /\ t' = r.st
                  /\ dead' = IF r.ret = 0 THEN dead \cup {id} ELSE dead
                  /\ owed' = IF r.ret = 0 THEN [owed EXCEPT ![id] = 0] ELSE owed
                  \* deleting a live action (pending or elapsed-unprocessed) succeeds
                  /\ bad' = ((r.ret = 0) # (id \in Live(t)))
               /\ UNCHANGED <<pc, hist, prev>>
NextI == ITick \/ IStart \/ ITask \/ (\E pr \in Pairs : ICreate(pr[1], pr[2])) \/ (\E id \in -1..Max : IDelete(id))
SpecI == Init /\ [][NextI]_vars
InvPoolPre == PoolOKPre(t, pc)
InvClaims == ~bad
\* "no action is lost" also as a state invariant: owed expiries are exactly the
\* actions sitting on the elapsed list, in the chain, or about to be called
InvOwed == \A i \in Ids : owed[i] = (IF \E k \in 1..Len(t.elapsed) : \E j \in 1..Len(t.elapsed[k]) : t.elapsed[k][j] = i THEN 1 ELSE 0)
                                 + (IF \E j \in 1..Len(pc.chain) : pc.chain[j] = i THEN 1 ELSE 0)
                                 + (IF pc.cur = i THEN 1 ELSE 0)

\* ---------------- generation model ---------------------------------------
Items(ret, obs) == obs \o << <<"ret", ret>> >>
Pool(tt) == << <<"acts", Len(tt.freeA)>>, <<"cons", 1>> >>
GCreate(s, c, sc) ==
  LET r == CreateInj(t, s, c, sc)
      h == IF r.ret >= 0 THEN r.ret ELSE Max IN
  /\ t' = r.t
  /\ Rec(Step(<< <<"inject">> \o sc, "|", <<"tmr_create", h, s, c>> >>, Items(IF r.ret >= 0 THEN 0 ELSE -1, r.obs) \o Pool(r.t)))
GDelete(id, sc) ==
  LET r == DeleteInj(t, id, sc) IN
  /\ t' = r.t
  /\ Rec(Step(<< <<"inject">> \o sc, "|", <<"tmr_delete", IF id = Max THEN -2 ELSE id>> >>, Items(r.ret, r.obs) \o Pool(r.t)))
GSvc == LET s == Service(t) IN
        /\ t' = s.st
        /\ Rec(Step(<<"svc">>, << <<"ret", s.ret>> >> \o Pool(s.st)))
GProc(sc) == LET r == Proc(t, sc) IN
             /\ t' = r.t
             /\ Rec(Step(<< <<"inject">> \o sc, "|", <<"proc">> >>, r.obs \o Pool(r.t)))
Next == /\ UNCHANGED <<pc, owed, dead, bad>>
        /\ \/ \E pr \in Pairs, sc \in Scheds2 : GCreate(pr[1], pr[2], sc)
           \* injection only for handles the harness can address without id aliasing (live ones)
           \/ \E id \in -1..Max, sc \in Scheds2 : (id \in Live(t) \/ sc = <<0, 0>>) /\ GDelete(id, sc)
           \/ GSvc
           \/ \E sc \in SchedsP : GProc(sc)

\* probe: finish processing, then drain
RECURSIVE DrainD(_, _)
DrainD(tt, k) == IF k = 0 THEN <<>>
                 ELSE LET s == Service(tt)
                          r == Proc(s.st, <<>>)
                      IN <<Step(<<"svc">>, << <<"ret", s.ret>> >> \o Pool(s.st)), Step(<<"proc">>, r.obs \o Pool(r.t))>> \o DrainD(r.t, k-1)
Probe(tt) == LET r == Proc(tt, <<>>) IN <<Step(<<"proc">>, r.obs \o Pool(r.t))>> \o DrainD(r.t, 5)
EmitEdge == hist = <<>> \/ PrintT(<<"EDGE", ToJson([c |-> Max, s |-> prev, e |-> hist[Len(hist)], d |-> ViewG, p |-> Probe(t)])>>)
EmitWalk == Len(hist) < WalkLen \/ (PrintT(<<"WALK", ToJson([c |-> Max, h |-> hist, p |-> Probe(t)])>>) /\ FALSE)
\* VIEW of the model-checking configurations: TLC evaluates invariants only on states it has not seen before, and "seen" is
\* decided on the VIEW; a step verdict kept in a ghost variable must therefore be part of it, or a violating edge INTO A KNOWN
\* STATE would be discarded unexamined (the generation configurations keep the plain View: the verdict is not behaviour)
ViewM == <<View, bad>>
=============================================================================
