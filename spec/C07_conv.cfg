CONSTANTS Max = 1  Freqs = {1, 3, 100, 300, 1000, 1500, 10000, 1000000}  Units = {1000, 10000}
CONSTANT EmitTimes <- MCEmitTimes
INIT Init
NEXT Next
