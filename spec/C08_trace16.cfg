CONSTANTS Max = 16
SPECIFICATION TSpec
INVARIANT InvPool
POSTCONDITION Accepted
CHECK_DEADLOCK FALSE
