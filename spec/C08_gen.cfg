CONSTANTS Max = 3  Walk = FALSE  WalkLen = 0
CONSTANT Pairs <- PairsPre  Scheds2 <- S2  SchedsP <- SP
INIT Init
NEXT Next
VIEW ViewG
CONSTRAINT EmitEdge
