CONSTANTS Max = 4  Walk = FALSE  WalkLen = 0  ProbeTicks = 9
CONSTANT Pairs <- PairsBig
INIT Init
NEXT Next
VIEW ViewM
INVARIANTS InvPool InvFire InvSchedule InvCreate
