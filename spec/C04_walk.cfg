CONSTANTS SegMax = 3  NodeId = 1  Walk = TRUE  WalkLen = 30  ProbeKind = "full"  PumpN = 0  ProbeReset = FALSE  ProbeB = FALSE
CONSTANT Dict <- MCDict  Mux <- MCMux  Letters <- LettersFull
INIT Init
NEXT Next
CONSTRAINT EmitWalk
