CONSTANTS NodeId = 5  HbInit = 2  Walk = TRUE  WalkLen = 40  EvCap = 3  PoolN = 16
CONSTANT Letters <- L10  HcInit <- HC10  ProbeLetters <- P10
INIT Init
NEXT Next

CONSTRAINT EmitWalk

