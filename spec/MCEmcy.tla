-------------------------------- MODULE MCEmcy --------------------------------
EXTENDS CoEmcyGen
T4 == << <<0, 4096>>, <<1, 8192>>, <<1, 8448>>, <<2, 12288>> >>
T5 == << <<0, 4096>>, <<1, 8192>>, <<1, 8448>>, <<2, 12288>>, <<7, 65280>> >>
LE4 == {<<"set", k, u>> : k \in 0..3, u \in {<<>>, U1}} \cup {<<"clr", k>> : k \in 0..3} \cup {<<"reset", TRUE>>, <<"reset", FALSE>>, <<"cnt">>, <<"rdreg">>}
       \cup {<<"get", 1>>, <<"rdhist", 0>>, <<"rdhist", 1>>, <<"rdhist", 2>>, <<"wrhist", 0>>, <<"wrhist", 1>>, <<"wrid", TRUE>>, <<"wrid", FALSE>>, <<"wridbad">>}
       \cup {<<"mode", m>> : m \in {1, 2, 3, 4}} \cup {<<"apireset", 2>>}
LEQ == {<<"set", k, <<>>>> : k \in 0..3} \cup {<<"set", 1, U1>>} \cup {<<"clr", k>> : k \in 0..3} \cup {<<"reset", TRUE>>, <<"reset", FALSE>>, <<"cnt">>}
       \cup {<<"rdhist", 1>>, <<"wrhist", 0>>, <<"wrhist", 1>>, <<"wrid", TRUE>>, <<"wrid", FALSE>>, <<"mode", 2>>, <<"mode", 4>>, <<"mode", 1>>, <<"apireset", 2>>}
LE20 == {<<"set", k, <<>>>> : k \in 0..3} \cup {<<"clr", 1>>, <<"nmtreset", 130>>, <<"nmtreset", 129>>, <<"mode", 3>>, <<"mode", 4>>, <<"wrid", FALSE>>, <<"wrid", TRUE>>}
        \cup {<<"mode", 1>>, <<"apireset", 2>>, <<"apireset", 1>>}        \* the application holds the node in INITIALISATION and resets it from there
PE20 == << <<"nmtreset", 130>>, <<"rdreg">>, <<"cnt">>, <<"get", 0>>, <<"get", 1>>, <<"get", 2>>, <<"get", 3>>, <<"set", 1, <<>>>>, <<"rdreg">>, <<"cnt">> >>
\* errors with identifiers above the number of error classes (8): a table of 12, letters on the identifiers 1, 8, 9 and 11
T12 == << <<0, 4096>>, <<1, 8192>>, <<1, 8448>>, <<2, 12288>>, <<3, 16384>>, <<4, 20480>>, <<5, 24576>>, <<7, 65280>>, <<1, 8704>>, <<2, 12544>>, <<4, 20736>>, <<0, 4352>> >>
LEH == {<<"set", k, <<>>>> : k \in {1, 8, 9, 11}} \cup {<<"clr", k>> : k \in {1, 8, 9, 11}} \cup {<<"reset", TRUE>>, <<"reset", FALSE>>, <<"nmtreset", 130>>, <<"cnt">>, <<"rdreg">>, <<"mode", 4>>, <<"mode", 2>>}
PEH == << <<"rdreg">>, <<"cnt">>, <<"get", 1>>, <<"get", 8>>, <<"get", 9>>, <<"get", 11>>, <<"set", 9, <<>>>>, <<"set", 11, <<>>>>, <<"reset", FALSE>>, <<"rdreg">>, <<"cnt">>, <<"get", 9>>, <<"set", 9, <<>>>>,
          <<"nmtreset", 130>>, <<"cnt">>, <<"rdreg">>, <<"set", 11, <<>>>>, <<"rdhist", 1>> >>
\* the whole table of CO_EMCY_N = 32 errors: identifiers at the byte boundaries of the error-status storage (0, 8, 16, 24, 31), alone and together,
\* across COEmcyReset and NMT resets
T32 == [k \in 1..32 |-> <<(k * 3) % 8, 4096 + 256 * (k % 200) + k>>]
WIds == {0, 8, 16, 24, 31}
LEW == {<<"set", k, <<>>>> : k \in WIds} \cup {<<"clr", k>> : k \in WIds} \cup {<<"reset", TRUE>>, <<"reset", FALSE>>, <<"nmtreset", 130>>, <<"cnt">>, <<"rdreg">>}
PEW == << <<"rdreg">>, <<"cnt">>, <<"get", 0>>, <<"get", 8>>, <<"get", 16>>, <<"get", 24>>, <<"get", 31>>, <<"nmtreset", 130>>, <<"cnt">>, <<"rdreg">>,
           <<"get", 8>>, <<"get", 16>>, <<"get", 24>>, <<"set", 8, <<>>>>, <<"set", 16, <<>>>>, <<"set", 24, <<>>>>, <<"set", 0, <<>>>>, <<"cnt">>, <<"rdreg">>, <<"reset", FALSE>>, <<"cnt">>, <<"rdreg">> >>
PE == << <<"rdreg">>, <<"cnt">>, <<"get", 0>>, <<"get", 1>>, <<"get", 2>>, <<"get", 3>>, <<"mode", 2>>, <<"rdhist", 0>>, <<"rdhist", 1>>, <<"rdhist", 2>>,
         <<"set", 2, <<>>>>, <<"rdhist", 1>>, <<"clr", 2>>, <<"reset", FALSE>>, <<"rdreg">>, <<"cnt">> >>
===============================================================================
