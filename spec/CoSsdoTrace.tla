---------------------------- MODULE CoSsdoTrace ----------------------------
(***************************************************************************)
(* C02 - C05 (and the SDO part of C09), direction code -> spec: validates  *)
(* traces RECORDED from the real SDO server against the CoSsdo reference.  *)
(* The frames do not come from the model: a PRNG client (checks/           *)
(* sdo_trace.py) plays conforming and deviating dialogues with random      *)
(* objects, sizes, block sizes, acknowledges and payload on a dictionary   *)
(* that is logged in the first line of the trace; the real block size      *)
(* (127 segments) is used.  Every recorded request must be explained by    *)
(* Step: the recorded response frames must equal the reference's (bytes    *)
(* the reference leaves open are -1), the set of changed objects must be   *)
(* allowed, no SDO frame may reach the application, and dumped object      *)
(* contents must equal the reference dictionary.                           *)
(* Trace lines:                                                            *)
(*  {"e":"cfg","nsrv":n,"dict":[[idx,sub,r,w,kind,data,abort]...]}  line 1 *)
(*  {"e":"rx","srv":k,"f":[8],"tx":[[8]...],"chg":[[idx,sub]...],"app":n}  *)
(*  {"e":"dump","idx":i,"sub":s,"data":[...]}                              *)
(*  {"e":"reset"}   a new node is started with the logged dictionary       *)
(*  {"e":"nmtreset"} NMT reset communication received by the running node  *)
(* While the reference does not know the server's state (after a step the  *)
(* properties leave open) it follows the same rule as CoSsdoGen: idle,     *)
(* objects named by initiates become unknown, until the next client abort. *)
(***************************************************************************)
EXTENDS CoSsdo, TLC, Json, IOUtils
TraceLog == ndJsonDeserialize(IOEnv.TRACE)
\* s, sync, open are functions of the server number (CO_SSDO_N = 1 or 2; the servers share the dictionary);
\* open[k]: the object an out-of-sync server may still be writing to (0 = none)
VARIABLES s, d, sync, open, l, nd
tvars == <<s, d, sync, open, l, nd>>
Ev == TraceLog[l]
NSrv == TraceLog[1].nsrv
D0 == [p \in 1..Len(TraceLog[1].dict) |->
         LET o == TraceLog[1].dict[p] IN
         [idx |-> o[1], sub |-> o[2], r |-> (o[3] = 1), w |-> (o[4] = 1), kind |-> o[5], data |-> o[6], abort |-> o[7]]]

MatchFrm(p, o) == Len(p) = Len(o) /\ \A i \in 1..Len(p) : p[i] = -1 \/ p[i] = o[i]
MatchOut(po, oo) == Len(po) = Len(oo) /\ \A k \in 1..Len(po) : MatchFrm(po[k], oo[k])
MatchData(md, od) == Len(md) = Len(od) /\ \A i \in 1..Len(md) : md[i] = -1 \/ md[i] = od[i]

\* objects that may change in a determined step: the target of an open / just confirmed download,
\* and every object whose reference content changes in this step
MayChange(s0, d0, r) ==
  {<<d0[p].idx, d0[p].sub>> : p \in {q \in 1..Len(d0) : d0[q] # r.d[q]}}
  \cup (IF s0.o # 0 /\ s0.mode \in {"dseg", "bdl", "bdw"} THEN {<<d0[s0.o].idx, d0[s0.o].sub>>} ELSE {})
  \cup (IF r.s.o # 0 /\ r.s.mode \in {"dseg", "bdl", "bdw"} THEN {<<d0[r.s.o].idx, d0[r.s.o].sub>>} ELSE {})
ChgSet == {<<Ev.chg[k][1], Ev.chg[k][2]>> : k \in 1..Len(Ev.chg)}

Fresh == /\ s = [k \in 1..NSrv |-> Idle] /\ d = D0 /\ sync = [k \in 1..NSrv |-> TRUE] /\ open = [k \in 1..NSrv |-> 0]
TInit == Fresh /\ l = 2 /\ nd = 0
\* a rejection has no counterexample: say which line, and what the reference demanded
Reject(what) == PrintT(<<"REJECT", ToJson([l |-> l, exp |-> what])>>) /\ FALSE
Unk(dd, p) == IF p = 0 THEN dd ELSE [dd EXCEPT ![p] = Unknown(@)]

TRx ==
  /\ Ev.e = "rx"
  /\ (IF Ev.app = 0 THEN TRUE ELSE Reject("app"))                      \* C09: a frame on the server's identifier is the server's
  /\ LET f == Ev.f
         k == Ev.srv
         r == Step(s[k], d, f) IN
     IF ~sync[k] /\ r.open # "abort"
     THEN \* the reference does not know this server's state: the object it may have open (named by the last initiate)
          \* can be written by any frame
          LET p == Lookup(d, FIdx(f), FSub(f))
              o1 == IF IsInitiate(Cmd(f)) THEN p ELSE open[k] IN
          /\ s' = [s EXCEPT ![k] = Idle] /\ sync' = sync /\ nd' = nd
          /\ open' = [open EXCEPT ![k] = o1]
          /\ d' = Unk(Unk(d, open[k]), o1)
     ELSE /\ s' = [s EXCEPT ![k] = r.s] /\ d' = r.d
          /\ sync' = [sync EXCEPT ![k] = (IF r.open = "abort" THEN TRUE ELSE IF r.open = "free" THEN FALSE ELSE @)]
          /\ open' = [open EXCEPT ![k] = IF r.open = "free" THEN s[k].o ELSE 0]
          /\ nd' = (IF r.open = "det" THEN nd + 1 ELSE nd)
          \* (IF, not \/: TLC explores both disjuncts of an action-level disjunction, the message would be printed regardless)
          /\ IF r.open # "det" THEN TRUE
             ELSE IF ~MatchOut(r.out, Ev.tx) THEN Reject(r.out)
             ELSE IF ~(ChgSet \subseteq MayChange(s[k], d, r)) THEN Reject(<<"chg", MayChange(s[k], d, r)>>)
             ELSE TRUE
\* the content of the target of an open download is in flux
InFlux(p) == \E k \in 1..NSrv : (s[k].o = p /\ s[k].mode \in {"dseg", "bdl", "bdw"}) \/ open[k] = p
TDump ==
  /\ Ev.e = "dump"
  /\ LET p == Lookup(d, Ev.idx, Ev.sub) IN
     /\ p # 0
     /\ IF InFlux(p) \/ MatchData(d[p].data, Ev.data) THEN TRUE ELSE Reject(d[p].data)
  /\ UNCHANGED <<s, d, sync, open, nd>>
TReset == /\ Ev.e = "reset" /\ nd' = nd
          /\ s' = [k \in 1..NSrv |-> Idle] /\ d' = D0 /\ sync' = [k \in 1..NSrv |-> TRUE] /\ open' = [k \in 1..NSrv |-> 0]
\* NMT reset communication while transfers may be running (C05 / C20: "the same holds after an NMT reset communication", for every
\* server): all servers idle and known again; the target of a download that was open is left as that transfer left it (unknown)
RECURSIVE DropAll(_, _)
DropAll(dd, k) == IF k = 0 THEN dd ELSE DropAll(Unk(DropTransfer(s[k], dd), open[k]), k - 1)
TNmtReset == /\ Ev.e = "nmtreset" /\ nd' = nd
             /\ s' = [k \in 1..NSrv |-> Idle] /\ sync' = [k \in 1..NSrv |-> TRUE] /\ open' = [k \in 1..NSrv |-> 0]
             /\ d' = DropAll(d, NSrv)
TNext == l <= Len(TraceLog) /\ l' = l + 1 /\ (TRx \/ TDump \/ TReset \/ TNmtReset)
TSpec == TInit /\ [][TNext]_tvars
Accepted == TLCGet("stats").diameter = Len(TraceLog)
InvSrvT == \A k \in 1..NSrv : SrvOK(s[k], d)
\* vacuity guard: the number of requests whose response was determined and compared is reported
Report == l <= Len(TraceLog) \/ PrintT(<<"DET", ToJson([nd |-> nd, n |-> Len(TraceLog)])>>)
=============================================================================
