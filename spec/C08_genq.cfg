CONSTANTS Max = 3  Walk = FALSE  WalkLen = 0
CONSTANT Pairs <- PairsPreQ  Scheds2 <- S2Q  SchedsP <- SPQ
INIT Init
NEXT Next
VIEW ViewG
CONSTRAINT EmitEdge
