----------------------------- MODULE CoTmrConv ------------------------------
(* C07, last clause: time-to-tick conversion is monotonic and exact whenever *)
(* the time is a whole number of ticks.  The reference GetTicks of CoTmr is  *)
(* checked for these two facts over the whole 16-bit time range, and the     *)
(* exact cases are emitted so that the C function can be compared with it.   *)
EXTENDS CoTmr, TLC, Json
CONSTANTS Freqs, Units, EmitTimes
VARIABLE dummy
Whole(f, tm, u) == (tm * (f \div Gcd(f, u))) % (u \div Gcd(f, u)) = 0
AllTimes == 0..65535
Monotonic == \A f \in Freqs, u \in Units : \A tm \in 0..65534 : GetTicks(f, tm, u) <= GetTicks(f, tm+1, u)
\* exactness, stated without division: ticks * unit = time * freq  (in reduced terms)
Exact == \A f \in Freqs, u \in Units : \A tm \in AllTimes :
           Whole(f, tm, u) => GetTicks(f, tm, u) * (u \div Gcd(f, u)) = tm * (f \div Gcd(f, u))
ASSUME Monotonic
ASSUME Exact
LE4(v) == <<v % 256, (v \div 256) % 256, (v \div 65536) % 256, (v \div 16777216) % 256>>
ASSUME \A f \in Freqs, u \in Units : \A tm \in EmitTimes :
          Whole(f, tm, u) => PrintT(<<"CONV", ToJson([f |-> f, u |-> u, t |-> tm, r |-> LE4(GetTicks(f, tm, u))])>>)
Init == dummy = 0
Next == UNCHANGED dummy
=============================================================================
