CONSTANTS NodeId = 5  HbInit = 2  Walk = FALSE  WalkLen = 0  EvCap = 1  PoolN = 16
CONSTANT Letters <- L20Q  HcInit <- HC20  ProbeLetters <- P20
INIT Init
NEXT Next
VIEW View
CONSTRAINT Bound
CONSTRAINT EmitEdge

