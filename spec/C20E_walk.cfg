CONSTANTS NodeId = 5  Depth = 2  Walk = TRUE  WalkLen = 35
CONSTANT Tbl <- T4  Letters <- LE20  ProbeLetters <- PE20
INIT Init
NEXT Next

CONSTRAINT EmitWalk
