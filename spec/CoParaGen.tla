------------------------------ MODULE CoParaGen ------------------------------
EXTENDS CoPara, TLC, Json, SequencesExt
CONSTANTS Letters, ProbeLetters, Walk, WalkLen, CfgName
VARIABLES p, hist, prev, gh
vars == <<p, hist, prev, gh>>
StepRec(ev, x) == [e |-> ev, x |-> x]
SdoTx == 1408 + NodeId
SdoRx == 1536 + NodeId
Mx(idx, sub) == <<idx % 256, idx \div 256, sub>>
WrOk(idx, sub) == <<"tx", SdoTx, 8, 96>> \o Mx(idx, sub) \o <<-1, -1, -1, -1>>
AbortAny(idx, sub) == <<"tx", SdoTx, 8, 128>> \o Mx(idx, sub) \o <<-1, -1, -1, -1>>
WrFrame(idx, sub, bytes) == <<"rx", SdoRx, 8, 35>> \o Mx(idx, sub) \o bytes
SAVE == <<115, 97, 118, 101>>
LOAD == <<108, 111, 97, 100>>
\* RAM is one block in the harness (group 0 = the whole image): predicted storage change
Known(a) == \A i \in 1..Len(a) : a[i] # -1
RamChg(p0, p1) == IF ~Known(p0.ram) \/ ~Known(p1.ram) THEN << <<"chg?", 65280, 0>> >>
                  ELSE IF p0.ram # p1.ram THEN << <<"chg", 65280, 0>> \o p1.ram >> ELSE <<>>
Apply(pp, l) ==
  CASE l[1] \in {"save", "load"} /\ IsGap(Groups[l[2]]) ->      \* no such sub-index: refused, nothing happens
                        [ev |-> WrFrame(IF l[1] = "save" THEN 4112 ELSE 4113, l[2], IF l[1] = "save" THEN SAVE ELSE LOAD), p |-> pp, x |-> <<AbortAny(IF l[1] = "save" THEN 4112 ELSE 4113, l[2])>>]
    [] l[1] = "save" -> LET s == StoreAll(pp, Subs(l[2]), <<>>) IN
                        [ev |-> WrFrame(4112, l[2], SAVE), p |-> s.p, x |-> s.out \o <<IF s.ok THEN WrOk(4112, l[2]) ELSE AbortAny(4112, l[2])>>]
    [] l[1] = "load" -> LET s == RestoreAll(pp, Subs(l[2]), <<>>) IN
                        [ev |-> WrFrame(4113, l[2], LOAD), p |-> s.p, x |-> s.out \o <<WrOk(4113, l[2])>> \o RamChg(pp, s.p)]
    [] l[1] = "badsig" -> [ev |-> WrFrame(l[2], l[3], l[4]), p |-> pp, x |-> <<AbortAny(l[2], l[3])>>]
    \* an expedited download that announces only l[4] = 1..3 data bytes while the unused bytes of the frame complete the signature:
    \* the value written is NOT the signature ("any other value is refused and touches neither RAM nor NVM")
    [] l[1] = "shortsig" -> [ev |-> <<"rx", SdoRx, 8, 35 + 4 * (4 - l[4])>> \o Mx(l[2], l[3]) \o (IF l[2] = 4112 THEN SAVE ELSE LOAD), p |-> pp, x |-> <<AbortAny(l[2], l[3])>>]
    [] l[1] = "poke" -> [ev |-> <<"para_poke", 0, l[2], l[3]>>, p |-> [pp EXCEPT !.ram[l[2] + 1] = l[3]], x |-> RamChg(pp, [pp EXCEPT !.ram[l[2] + 1] = l[3]])]
    [] l[1] = "restart" -> LET s == Restart(pp) IN
                           [ev |-> <<"restart">>, p |-> s.p, x |-> s.out \o RamChg([pp EXCEPT !.ram = Dflt], s.p)]
    [] l[1] = "resetnode" -> LET s == ResetNode(pp) IN [ev |-> <<"rx", 0, 2, 129, 0, 0, 0, 0, 0, 0, 0>>, p |-> s.p, x |-> s.out \o RamChg(pp, s.p)]
    [] l[1] = "resetcom" -> LET s == ResetCom(pp) IN [ev |-> <<"rx", 0, 2, 130, 0, 0, 0, 0, 0, 0, 0>>, p |-> s.p, x |-> s.out \o RamChg(pp, s.p)]
    [] l[1] = "fault" -> [ev |-> <<"fault_nvm", l[2], l[3]>>, p |-> [pp EXCEPT !.fault = l[2], !.short = l[3]], x |-> <<>>]
    [] l[1] = "geterr" -> [ev |-> <<"get_err">>, p |-> [pp EXCEPT !.err = FALSE], x |-> << <<"ret", IF pp.err THEN -2 ELSE -1>> >>]
    [] l[1] = "dump" -> [ev |-> <<"para_dump", 0>>, p |-> pp, x |-> << <<"pram", 0>> \o pp.ram >>]
    [] l[1] = "nvm" -> [ev |-> <<"nvm_dump", 0, Len(Dflt)>>, p |-> pp, x |-> << <<"nvm">> \o pp.nvm >>]
View == p
Rec(step) == /\ hist' = (IF Walk THEN Append(hist, step) ELSE <<step>>)
             /\ prev' = View
\* C17 on the reference
StepOk(p0, l, a) ==
  \* a store writes exactly the RAM bytes of the addressed enabled groups, nothing else in NVM changes
  \* 'load' calls the default callback for exactly the enabled groups of the addressed sub-index (all existing ones for sub-index 1)
  /\ (l[1] = "load" /\ ~IsGap(Groups[l[2]]) =>
        \A k \in 1..N : (\E j \in 1..Len(a.x) : a.x[j] = <<"cb", "paradef", k - 1>>) <=>
                         (Groups[k].en /\ ~IsGap(Groups[k]) /\ (IF l[2] = 1 /\ N > 1 THEN k > 1 ELSE k = l[2])))
  /\ (l[1] = "save" /\ p0.fault = 0 =>
        \A i \in 1..Len(Dflt) : a.p.nvm[i] = (IF \E j \in 1..Len(Subs(l[2])) : LET g == Groups[Subs(l[2])[j]] IN g.en /\ i > g.off /\ i <= g.off + g.size
                                              THEN p0.ram[i] ELSE p0.nvm[i]))
  /\ (l[1] = "save" => a.p.ram = p0.ram)
  /\ (l[1] \in {"badsig", "shortsig"} => a.p = p0)
  /\ (l[1] = "load" => a.p.nvm = p0.nvm)
  \* after a restart without driver fault the parameters of every group equal the stored image
  /\ (l[1] = "restart" /\ p0.fault = 0 => \A k \in 1..N : Slice(a.p.ram, Groups[k].off, Groups[k].size) = Slice(p0.nvm, Groups[k].off, Groups[k].size))
  \* a short count is surfaced: abort of the request or node error
  /\ (l[1] \in {"restart", "resetnode", "resetcom"} /\ (\E k \in 1..Len(a.x) : a.x[k][1] = "nvmrd" /\ a.x[k][3] # a.x[k][4]) => a.p.err)
  /\ (l[1] = "save" /\ (\E k \in 1..Len(a.x) : a.x[k][1] = "nvmwr" /\ a.x[k][3] # a.x[k][4]) => \E k \in 1..Len(a.x) : a.x[k][1] = "tx" /\ a.x[k][4] = 128)
Do(l) == LET a == Apply(p, l) IN
         /\ p' = a.p /\ gh' = StepOk(p, l, a) /\ Rec(StepRec(a.ev, a.x))
Init == p = LoadBoth(Para0).p /\ hist = <<>> /\ prev = <<>> /\ gh = TRUE
Next == \E l \in Letters : Do(l)
InvC17 == gh
RECURSIVE RunLetters(_, _, _)
RunLetters(pp, ls, acc) ==
  IF ls = <<>> THEN acc
  ELSE LET a == Apply(pp, Head(ls)) IN RunLetters(a.p, Tail(ls), Append(acc, StepRec(a.ev, a.x)))
Probe == RunLetters(p, ProbeLetters, <<>>)
Cfg == [n |-> NodeId, name |-> CfgName, groups |-> Groups, dflt |-> Dflt]
EmitEdge == hist = <<>> \/ PrintT(<<"EDGE", ToJson([c |-> Cfg, s |-> prev, e |-> hist[Len(hist)], d |-> View, p |-> Probe])>>)
EmitWalk == Len(hist) < WalkLen \/ (PrintT(<<"WALK", ToJson([c |-> Cfg, h |-> hist, p |-> Probe])>>) /\ FALSE)
\* VIEW of the model-checking configurations: TLC evaluates invariants only on states it has not seen before, and "seen" is
\* decided on the VIEW; a step verdict kept in a ghost variable must therefore be part of it, or a violating edge INTO A KNOWN
\* STATE would be discarded unexamined (the generation configurations keep the plain View: the verdict is not behaviour)
ViewM == <<View, gh>>
=============================================================================
