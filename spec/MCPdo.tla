-------------------------------- MODULE MCPdo --------------------------------
EXTENDS CoPdoGen
Ob(i, s, z, r, w, m, a) == [idx |-> i, sub |-> s, size |-> z, r |-> r, w |-> w, map |-> m, async |-> a]
\* a, b: asynchronous mappable bytes; w: 16 bit mappable; l: 32 bit mappable; r: read-only mappable; n: not mappable;
\* W, L: asynchronous mappable 16 / 32 bit
MCObjs == [a |-> Ob(8448, 0, 1, TRUE, TRUE, TRUE, TRUE), b |-> Ob(8449, 0, 1, TRUE, TRUE, TRUE, TRUE), w |-> Ob(8450, 0, 2, TRUE, TRUE, TRUE, FALSE),
           l |-> Ob(8451, 0, 4, TRUE, TRUE, TRUE, FALSE), r |-> Ob(8452, 0, 1, TRUE, FALSE, TRUE, FALSE), n |-> Ob(8453, 0, 1, TRUE, TRUE, FALSE, FALSE),
           W |-> Ob(8454, 0, 2, TRUE, TRUE, TRUE, TRUE), L |-> Ob(8455, 0, 4, TRUE, TRUE, TRUE, TRUE)]
MCOrder == <<"a", "b", "w", "l", "r", "n", "W", "L">>
MCV0 == [a |-> <<1>>, b |-> <<2>>, w |-> <<3, 4>>, l |-> <<5, 6, 7, 8>>, r |-> <<9>>, n |-> <<10>>, W |-> <<0, 0>>, L |-> <<0, 0, 0, 0>>]
M(o, bits) == MapOf(o, bits)    \* needs Objs = MCObjs
Dm(idx, bits) == <<bits, 0, idx, 0>>
Z4 == <<0, 0, 0, 0>>
TC(off, id, type, inh, evt, n, m) == [off |-> off, id |-> id, rtr |-> TRUE, ext |-> FALSE, type |-> type, inh |-> inh, evt |-> evt, n |-> n, m |-> m]
RC(off, id, type, n, m) == [off |-> off, id |-> id, rtr |-> FALSE, ext |-> FALSE, type |-> type, inh |-> 0, evt |-> 0, n |-> n, m |-> m]
\* ---- C12: two TPDOs: #1 event driven (a, w) with inhibit 2 ticks and event 3 ticks; #2 synchronous type 2 (b, l)
TC12 == << TC(FALSE, 389, 254, 20, 3, 2, <<M("a", 8), M("w", 16), Z4, Z4>>), TC(FALSE, 645, 2, 0, 0, 2, <<M("b", 8), M("l", 32), Z4, Z4>>) >>
RC12 == << RC(FALSE, 517, 254, 1, <<M("b", 8), Z4, Z4, Z4>>) >>
S12 == <<128, FALSE, 0>>
L12 == {<<"nmt", 1>>, <<"nmt", 2>>, <<"nmt", 128>>, <<"tick">>, <<"trig", 1>>, <<"trig", 2>>, <<"sync", 128>>, <<"sync", 129>>}
       \cup {<<"wr", "a", <<v>>>> : v \in {1, 7}} \cup {<<"api", "a", <<8>>>>, <<"api", "w", <<5, 5>>>>, <<"wr", "b", <<9>>>>, <<"rpdo", 517, <<6, 0, 0, 0, 0, 0, 0, 0>>>>}
       \cup {<<"cfg", "evt", TRUE, 1, 0>>, <<"cfg", "evt", TRUE, 1, 3>>, <<"cfg", "cid", TRUE, 1, <<133, 1, 0, 192>>>>, <<"cfg", "cid", TRUE, 1, <<133, 1, 0, 64>>>>, <<"cfg", "inh", TRUE, 1, 0>>}
L12Q == {<<"nmt", 1>>, <<"nmt", 128>>, <<"tick">>, <<"trig", 1>>, <<"sync", 128>>, <<"wr", "a", <<7>>>>, <<"wr", "a", <<1>>>>, <<"api", "w", <<5, 5>>>>,
         <<"cfg", "evt", TRUE, 1, 3>>, <<"cfg", "cid", TRUE, 1, <<133, 1, 0, 192>>>>, <<"cfg", "cid", TRUE, 1, <<133, 1, 0, 64>>>>}
P12 == << <<"tick">>, <<"tick">>, <<"tick">>, <<"tick">>, <<"trig", 1>>, <<"wr", "a", <<33>>>>, <<"tick">>, <<"tick">>, <<"tick">>, <<"tick">>, <<"tick">>, <<"sync", 128>>, <<"sync", 128>>, <<"sync", 128>>,
          <<"nmt", 128>>, <<"nmt", 1>>, <<"tick">>, <<"tick">>, <<"tick">>, <<"tick">>, <<"tick">>, <<"wr", "a", <<34>>>> >>
P12B == << <<"nmt", 128>>, <<"nmt", 1>>, <<"pool">>, <<"trig", 1>>, <<"trig", 1>>, <<"tick">>, <<"pool">>, <<"trig", 1>>, <<"tick">>, <<"tick">>, <<"tick">>, <<"tick">>, <<"pool">> >>
PNone == <<>>
\* ---- C12R: the 16-bit value range of event time (ms) and inhibit time (100 us): values with the top bit set; the countdowns are
\*      followed for the first ticks only (BoundP), the armed timers are visible as timer-pool occupancy
TC12R == << TC(FALSE, 389, 254, 20, 3, 1, <<M("a", 8), Z4, Z4, Z4>>) >>
L12R == {<<"nmt", 1>>, <<"nmt", 128>>, <<"tick">>, <<"trig", 1>>,
         <<"cfg", "cid", TRUE, 1, <<133, 1, 0, 192>>>>, <<"cfg", "cid", TRUE, 1, <<133, 1, 0, 64>>>>,
         <<"cfg", "evt", TRUE, 1, 3>>, <<"cfg", "evt", TRUE, 1, 32768>>, <<"cfg", "evt", TRUE, 1, 65535>>, <<"cfg", "inh", TRUE, 1, 40000>>, <<"cfg", "inh", TRUE, 1, 65535>>}
P12R == << <<"pool">>, <<"rdcfg", "evt", TRUE, 1>>, <<"rdcfg", "inh", TRUE, 1>>, <<"tick">>, <<"tick">>, <<"pool">>, <<"trig", 1>>, <<"pool">>, <<"tick">>, <<"trig", 1>>,
           <<"nmt", 128>>, <<"nmt", 1>>, <<"pool">>, <<"tick">>, <<"tick">>, <<"pool">> >>
\* ---- C12S: "sent on every n-th SYNC and on no other": a synchronous TPDO of type 3 next to the synchronous RPDO WITH THE SAME NUMBER that is
\*      switched off / on and re-typed while the TPDO is counting
TC12S == << TC(FALSE, 389, 3, 0, 0, 1, <<M("a", 8), Z4, Z4, Z4>>) >>
RC12S == << RC(FALSE, 517, 1, 1, <<M("b", 8), Z4, Z4, Z4>>) >>
L12S == {<<"nmt", 1>>, <<"nmt", 128>>, <<"sync", 128>>, <<"rpdo", 517, <<6, 0, 0, 0, 0, 0, 0, 0>>>>, <<"cfg", "cid", FALSE, 1, <<5, 2, 0, 128>>>>, <<"cfg", "cid", FALSE, 1, <<5, 2, 0, 0>>>>,
         <<"cfg", "type", FALSE, 1, 254>>, <<"cfg", "type", FALSE, 1, 1>>, <<"cfg", "cid", TRUE, 1, <<133, 1, 0, 192>>>>, <<"cfg", "cid", TRUE, 1, <<133, 1, 0, 64>>>>}
P12S == << <<"sync", 128>>, <<"sync", 128>>, <<"sync", 128>>, <<"sync", 128>>, <<"nmt", 1>>, <<"sync", 128>>, <<"sync", 128>>, <<"sync", 128>> >>
\* ---- C12V: "triggered by a CHANGED asynchronous object" for every width: values that differ from the stored one in exactly
\*      one byte (each byte position), written by SDO, by the application and by an RPDO; unchanged values re-written
TC12V == << TC(FALSE, 389, 254, 0, 0, 3, <<M("a", 8), M("W", 16), M("L", 32), Z4>>) >>
RC12V == << RC(FALSE, 517, 254, 1, <<M("L", 32), Z4, Z4, Z4>>) >>
VW == {<<0, 0>>, <<1, 0>>, <<0, 1>>}
VL == {<<0, 0, 0, 0>>, <<1, 0, 0, 0>>, <<0, 1, 0, 0>>, <<0, 0, 1, 0>>, <<0, 0, 0, 1>>}
L12V == {<<"nmt", 1>>, <<"nmt", 128>>, <<"wr", "a", <<1>>>>, <<"wr", "a", <<7>>>>}
        \cup {<<k, "W", v>> : k \in {"wr", "api"}, v \in VW} \cup {<<k, "L", v>> : k \in {"wr", "api"}, v \in VL}
        \cup {<<"rpdo", 517, v \o <<0, 0, 0, 0>>>> : v \in {<<0, 0, 0, 0>>, <<0, 0, 1, 0>>, <<1, 0, 0, 0>>}}
P12V == << <<"nmt", 1>>, <<"wr", "L", <<0, 0, 0, 0>>>>, <<"api", "L", <<0, 0, 1, 0>>>>, <<"api", "L", <<0, 0, 1, 0>>>>, <<"wr", "W", <<0, 1>>>>, <<"wr", "W", <<0, 1>>>>, <<"api", "W", <<0, 0>>>> >>
\* ---- C10P: heartbeat producer (3 ticks) next to an event TPDO with inhibit (2 ticks) and event timer (3 ticks): timer ids are
\*      recycled, so every PDO path that stops or re-arms a timer is run against a heartbeat that is started, stopped and re-timed
TC10P == << TC(FALSE, 389, 254, 20, 3, 1, <<M("a", 8), Z4, Z4, Z4>>) >>
S10P == <<128, FALSE, 0, 3>>
L10P == {<<"tick">>, <<"trig", 1>>, <<"wr", "a", <<7>>>>, <<"wr", "a", <<1>>>>, <<"nmt", 1>>, <<"nmt", 128>>, <<"nmt", 2>>, <<"reset", 130>>,
         <<"cfg", "cid", TRUE, 1, <<133, 1, 0, 192>>>>, <<"cfg", "cid", TRUE, 1, <<133, 1, 0, 64>>>>, <<"cfg", "evt", TRUE, 1, 0>>, <<"cfg", "evt", TRUE, 1, 3>>,
         <<"hbwr", 0>>, <<"hbwr", 2>>, <<"hbwr", 3>>}
P10P == << <<"tick">>, <<"tick">>, <<"tick">>, <<"pool">>, <<"nmt", 128>>, <<"nmt", 1>>, <<"tick">>, <<"tick">>, <<"tick">>, <<"tick">>, <<"cfg", "evt", TRUE, 1, 3>>,
           <<"cfg", "cid", TRUE, 1, <<133, 1, 0, 192>>>>, <<"tick">>, <<"tick">>, <<"tick">>, <<"tick">>, <<"pool">>, <<"hbwr", 2>>, <<"tick">>, <<"tick">>, <<"pool">> >>
\* ---- C20 (PDO / SYNC part): SYNC producer on (2 ms), event TPDO with timers, synchronous RPDO; resets in every state
TC20 == << TC(FALSE, 389, 254, 20, 3, 1, <<M("a", 8), Z4, Z4, Z4>>) >>
RC20 == << RC(FALSE, 517, 1, 1, <<M("b", 8), Z4, Z4, Z4>>) >>
S20 == <<128, TRUE, 2000>>
L20P == {<<"nmt", 1>>, <<"nmt", 128>>, <<"nmt", 2>>, <<"tick">>, <<"trig", 1>>, <<"reset", 130>>, <<"reset", 129>>, <<"rpdo", 517, <<6, 0, 0, 0, 0, 0, 0, 0>>>>, <<"sync", 128>>,
         <<"wr", "a", <<7>>>>, <<"cfg", "scyc", TRUE, 1, 3000>>, <<"cfg", "sid", TRUE, 1, <<128, 0, 0, 0>>>>, <<"cfg", "sid", TRUE, 1, <<128, 0, 0, 64>>>>}
P20P == << <<"reset", 130>>, <<"pool">>, <<"rdcfg", "sid", TRUE, 1>>, <<"tick">>, <<"tick">>, <<"tick">>, <<"tick">>, <<"trig", 1>>, <<"sync", 128>>, <<"rpdo", 517, <<9, 0, 0, 0, 0, 0, 0, 0>>>>,
           <<"nmt", 1>>, <<"trig", 1>>, <<"tick">>, <<"tick">>, <<"tick">>, <<"tick">>, <<"rpdo", 517, <<9, 0, 0, 0, 0, 0, 0, 0>>>>, <<"sync", 128>>, <<"reset", 129>>, <<"pool">>, <<"tick">>, <<"tick">> >>
\* ---- C13: RPDO #1 asynchronous: a, dummy8, w; #2 synchronous (type 1): b, dummy16, l; #3 asynchronous: two 32-bit dummies
RC13 == << RC(FALSE, 517, 254, 3, <<M("a", 8), Dm(5, 8), M("w", 16), Z4>>), RC(FALSE, 773, 1, 3, <<M("b", 8), Dm(6, 16), M("l", 32), Z4>>),
           RC(FALSE, 1029, 255, 2, <<Dm(7, 32), Dm(7, 32), Z4, Z4>>) >>
TC13 == << TC(FALSE, 389, 254, 0, 0, 1, <<M("a", 8), Z4, Z4, Z4>>) >>
D1 == <<17, 18, 19, 20, 21, 22, 23, 24>>
D2 == <<33, 34, 35, 36, 37, 38, 39, 40>>
L13 == {<<"nmt", 1>>, <<"nmt", 2>>, <<"nmt", 128>>, <<"rpdo", 517, D1>>, <<"rpdo", 517, D2>>, <<"rpdo", 773, D1>>, <<"rpdo", 773, D2>>, <<"rpdo", 1029, D1>>, <<"rpdo", 518, D1>>,
        <<"sync", 128>>, <<"sync", 129>>, <<"wr", "a", <<99>>>>, <<"api", "l", <<1, 1, 1, 1>>>>,
        \* reconfiguration of the synchronous RPDO #2 while a frame may be waiting for its SYNC
        <<"cfg", "cid", FALSE, 2, <<5, 3, 0, 128>>>>, <<"cfg", "cid", FALSE, 2, <<5, 3, 0, 0>>>>, <<"cfg", "type", FALSE, 2, 254>>, <<"cfg", "type", FALSE, 2, 1>>,
        \* a refused write to 1005h (generate bit with another identifier while no period is configured): the SYNC identifier the RPDOs wait for stays
        <<"cfg", "sid", TRUE, 1, <<129, 0, 0, 64>>>>}
P13 == << <<"rd", "a">>, <<"rd", "b">>, <<"rd", "w">>, <<"rd", "l">>, <<"sync", 128>>, <<"rd", "b">>, <<"rd", "l">>, <<"nmt", 1>>, <<"rpdo", 773, D2>>, <<"sync", 128>>, <<"sync", 128>>, <<"rd", "l">> >>
\* ---- C09P: "PDO in OPERATIONAL only" for the synchronous RPDO, whose frame is buffered across NMT transitions: RPDO #1 synchronous, #2 asynchronous
RC09P == << RC(FALSE, 517, 1, 1, <<M("b", 8), Z4, Z4, Z4>>), RC(FALSE, 773, 254, 1, <<M("a", 8), Z4, Z4, Z4>>) >>
L09P == {<<"nmt", 1>>, <<"nmt", 2>>, <<"nmt", 128>>, <<"rpdo", 517, D1>>, <<"rpdo", 517, D2>>, <<"rpdo", 773, D1>>, <<"sync", 128>>}
P09P == << <<"sync", 128>>, <<"rd", "b">>, <<"rd", "a">>, <<"nmt", 1>>, <<"sync", 128>>, <<"rd", "b">>, <<"rpdo", 517, D2>>, <<"nmt", 128>>, <<"sync", 128>>, <<"rd", "b">> >>
\* ---- C14: one TPDO (a, w; valid, event driven) and one RPDO (b; valid); configuration writes in every state
TC14 == << TC(FALSE, 389, 254, 0, 0, 2, <<M("a", 8), M("w", 16), Z4, Z4>>) >>
RC14 == << RC(FALSE, 517, 254, 1, <<M("b", 8), Z4, Z4, Z4>>) >>
CidOffT == <<133, 1, 0, 192>>   CidOnT == <<133, 1, 0, 64>>   CidOnT2 == <<134, 1, 0, 64>>   CidNoRtr == <<133, 1, 0, 0>>   CidExtT == <<133, 1, 0, 96>>
CidOffR == <<5, 2, 0, 128>>     CidOnR == <<5, 2, 0, 0>>      CidOnR2 == <<6, 2, 0, 0>>      CidExtR == <<5, 2, 0, 32>>
L14 == {<<"nmt", 1>>, <<"nmt", 128>>}
       \cup {<<"cfg", "cid", TRUE, 1, b>> : b \in {CidOffT, CidOnT, CidOnT2, CidNoRtr, CidExtT}} \cup {<<"cfg", "cid", FALSE, 1, b>> : b \in {CidOffR, CidOnR, CidOnR2, CidExtR}}
       \cup {<<"cfg", "type", TRUE, 1, t>> : t \in {254, 1}} \cup {<<"cfg", "type", FALSE, 1, 1>>}
       \cup {<<"cfg", "num", TRUE, 1, k>> : k \in {0, 1, 2, 3, 4, 9}} \cup {<<"cfg", "num", FALSE, 1, k>> : k \in {0, 1, 2}}
       \cup {<<"cfg", "map", TRUE, 1, i, m>> : i \in {1, 2}, m \in {M("a", 8), M("l", 32), M("n", 8), <<8, 0, 0, 48>>}} \cup {<<"cfg", "map", TRUE, 1, 3, M("l", 32)>>}
       \cup {<<"cfg", "map", FALSE, 1, 1, m>> : m \in {M("b", 8), M("r", 8), M("l", 32)}} \cup {<<"cfg", "map", FALSE, 1, 2, M("l", 32)>>}
L14T == {l \in L14 : l[1] = "nmt" \/ l[3] = TRUE}
L14R == {l \in L14 : l[1] = "nmt" \/ l[3] = FALSE}
L14Q == {<<"nmt", 1>>, <<"nmt", 128>>, <<"cfg", "cid", TRUE, 1, CidOffT>>, <<"cfg", "cid", TRUE, 1, CidOnT>>, <<"cfg", "cid", TRUE, 1, CidNoRtr>>, <<"cfg", "cid", FALSE, 1, CidOffR>>, <<"cfg", "cid", FALSE, 1, CidOnR2>>,
         <<"cfg", "type", TRUE, 1, 1>>, <<"cfg", "type", TRUE, 1, 254>>, <<"cfg", "num", TRUE, 1, 0>>, <<"cfg", "num", TRUE, 1, 2>>, <<"cfg", "num", TRUE, 1, 3>>, <<"cfg", "num", FALSE, 1, 0>>, <<"cfg", "num", FALSE, 1, 1>>,
         <<"cfg", "map", TRUE, 1, 1, M("l", 32)>>, <<"cfg", "map", TRUE, 1, 2, M("l", 32)>>, <<"cfg", "map", TRUE, 1, 3, M("l", 32)>>, <<"cfg", "map", TRUE, 1, 1, M("n", 8)>>, <<"cfg", "map", FALSE, 1, 1, M("r", 8)>>, <<"cfg", "map", FALSE, 1, 1, M("l", 32)>>}
L14TQ == {l \in L14Q : l[1] = "nmt" \/ l[3] = TRUE}
L14RQ == {l \in L14Q : l[1] = "nmt" \/ l[3] = FALSE} \cup {<<"cfg", "cid", FALSE, 1, CidOnR>>, <<"cfg", "num", FALSE, 1, 2>>, <<"cfg", "map", FALSE, 1, 2, M("l", 32)>>}
\* (the first three letters look at the RUNNING PDOs before anything re-activates them: a reconfiguration while OPERATIONAL must have
\* reached them already)
P14 == << <<"rpdo", 517, D2>>, <<"rd", "b">>, <<"trig", 1>>, <<"rdcfg", "cid", TRUE, 1>>, <<"rdcfg", "type", TRUE, 1>>, <<"rdcfg", "num", TRUE, 1>>, <<"rdcfg", "map", TRUE, 1, 1>>, <<"rdcfg", "map", TRUE, 1, 2>>, <<"rdcfg", "map", TRUE, 1, 3>>,
          <<"rdcfg", "cid", FALSE, 1>>, <<"rdcfg", "num", FALSE, 1>>, <<"rdcfg", "map", FALSE, 1, 1>>,
          <<"nmt", 128>>, <<"nmt", 1>>, <<"trig", 1>>, <<"sync", 128>>, <<"rpdo", 517, D1>>, <<"rpdo", 518, D2>>, <<"sync", 128>>, <<"rd", "b">>, <<"rd", "l">> >>
\* ---- C14W: eight mapping slots per PDO (8 x 32 bit stored, count 1): counts up to the largest the dictionary holds; the byte sum 8 * 4 = 32
\*      (256 bit) is where an 8-bit bit counter would wrap; second TPDO with eight 8-bit entries where count 8 is exactly full
L8 == <<M("l", 32), M("l", 32), M("l", 32), M("l", 32), M("l", 32), M("l", 32), M("l", 32), M("l", 32)>>
A8 == <<M("a", 8), M("b", 8), M("a", 8), M("b", 8), M("a", 8), M("b", 8), M("a", 8), M("b", 8)>>
TC14W == << TC(FALSE, 389, 254, 0, 0, 1, L8) >>
RC14W == << RC(FALSE, 517, 254, 1, L8) >>
L14W == {<<"nmt", 1>>, <<"nmt", 128>>, <<"cfg", "cid", TRUE, 1, CidOffT>>, <<"cfg", "cid", TRUE, 1, CidOnT>>, <<"cfg", "cid", FALSE, 1, CidOffR>>, <<"cfg", "cid", FALSE, 1, CidOnR>>}
        \cup {<<"cfg", "num", TRUE, 1, k>> : k \in {1, 2, 3, 7, 8}} \cup {<<"cfg", "num", FALSE, 1, k>> : k \in {1, 2, 8}}
P14W == << <<"rdcfg", "num", TRUE, 1>>, <<"rdcfg", "num", FALSE, 1>>, <<"nmt", 128>>, <<"nmt", 1>>, <<"trig", 1>>, <<"rpdo", 517, D1>>, <<"rd", "l">> >>
TC14X == << TC(FALSE, 389, 254, 0, 0, 1, A8) >>
L14X == {<<"nmt", 1>>, <<"nmt", 128>>, <<"cfg", "cid", TRUE, 1, CidOffT>>, <<"cfg", "cid", TRUE, 1, CidOnT>>}
        \cup {<<"cfg", "num", TRUE, 1, k>> : k \in {0, 1, 7, 8, 9}} \cup {<<"cfg", "map", TRUE, 1, 8, M("w", 16)>>, <<"cfg", "map", TRUE, 1, 8, M("b", 8)>>}
P14X == << <<"rdcfg", "num", TRUE, 1>>, <<"rdcfg", "map", TRUE, 1, 8>>, <<"nmt", 128>>, <<"nmt", 1>>, <<"trig", 1>> >>
\* ---- C16: SYNC consumer / producer: 1005h/1006h writes, SYNC and near-miss frames, NMT, ticks; a type-1 TPDO and a synchronous RPDO make consumption visible
TC16 == << TC(FALSE, 389, 1, 0, 0, 1, <<M("a", 8), Z4, Z4, Z4>>) >>
RC16 == << RC(FALSE, 517, 1, 1, <<M("b", 8), Z4, Z4, Z4>>) >>
S16 == <<128, FALSE, 0>>
Sid(id, gen) == <<id % 256, id \div 256, 0, IF gen THEN 64 ELSE 0>>
L16 == {<<"nmt", 1>>, <<"nmt", 2>>, <<"nmt", 128>>, <<"tick">>, <<"sync", 128>>, <<"sync", 129>>, <<"rpdo", 517, D1>>}
       \cup {<<"cfg", "sid", TRUE, 1, Sid(i, g)>> : i \in {128, 129}, g \in {TRUE, FALSE}} \cup {<<"cfg", "scyc", TRUE, 1, us>> : us \in {0, 500, 1000, 2000, 3000}}
\* C16B: the node comes up with the generate bit of 1005h set and a period the timer cannot resolve (1006h = 0): no production until a
\* usable period is WRITTEN - that write must start it
S16B == <<128, TRUE, 0>>
L16B == {<<"nmt", 1>>, <<"nmt", 128>>, <<"tick">>, <<"reset", 130>>, <<"sync", 128>>} \cup {<<"cfg", "scyc", TRUE, 1, us>> : us \in {0, 500, 2000, 3000}}
        \cup {<<"cfg", "sid", TRUE, 1, Sid(128, g)>> : g \in {TRUE, FALSE}}
P16 == << <<"rdcfg", "sid", TRUE, 1>>, <<"rdcfg", "scyc", TRUE, 1>>, <<"tick">>, <<"tick">>, <<"tick">>, <<"tick">>, <<"sync", 128>>, <<"sync", 129>>, <<"cfg", "scyc", TRUE, 1, 2000>>, <<"cfg", "sid", TRUE, 1, Sid(128, TRUE)>>,
          <<"tick">>, <<"tick">>, <<"tick">>, <<"tick">>, <<"rdcfg", "sid", TRUE, 1>> >>
==============================================================================
