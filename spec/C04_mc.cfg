CONSTANTS SegMax = 3  NodeId = 1  Walk = FALSE  WalkLen = 0  ProbeKind = "full"  PumpN = 0  ProbeReset = FALSE  ProbeB = FALSE
CONSTANT Dict <- MCDict  Mux <- MCMux  Letters <- LettersFull
INIT Init
NEXT Next
VIEW ViewM
INVARIANTS InvSrv InvC04 InvNoWedge
