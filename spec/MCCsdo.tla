-------------------------------- MODULE MCCsdo --------------------------------
EXTENDS CoCsdoGen
Sizes == {1, 4, 5, 7, 8, 14, 15}
SizesQ == {1, 4, 5, 8, 14, 15}
LC == {<<"up", z, t>> : z \in Sizes, t \in {2, 3}} \cup {<<"down", z, t, 10>> : z \in Sizes, t \in {2, 3}} \cup {<<"up", 4, 0>>, <<"down", 8, 0, 10>>}
      \cup {<<"srv", k>> : k \in {"ok", "abort", "abortx", "toggle", "cmd", "size", "mux", "junk"}} \cup {<<"tick">>}
LCQ == {<<"up", z, 2>> : z \in SizesQ} \cup {<<"down", z, 3, 10>> : z \in SizesQ} \cup {<<"up", 8, 3>>}
      \cup {<<"srv", k>> : k \in {"ok", "abort", "abortx", "toggle", "cmd", "size", "junk"}} \cup {<<"tick">>}
PC == << <<"state">>, <<"pool">>, <<"tick">>, <<"tick">>, <<"tick">>, <<"tick">>, <<"state">>, <<"pool">>, <<"ubuf">>,
         <<"up", 4, 5>>, <<"pool">>, <<"tick">>, <<"tick">>, <<"tick">>, <<"tick">>, <<"srv", "ok">>, <<"pool">>, <<"ubuf">>, <<"down", 5, 0, 40>>, <<"srv", "ok">>, <<"srv", "ok">>, <<"state">>, <<"pool">> >>
LC20 == {<<"up", 4, 3>>, <<"up", 8, 2>>, <<"down", 8, 3, 10>>, <<"srv", "ok">>, <<"srv", "abort">>, <<"tick">>, <<"reset", 130>>, <<"reset", 129>>}
PC20 == << <<"reset", 130>>, <<"state">>, <<"pool">>, <<"tick">>, <<"tick">>, <<"tick">>, <<"tick">>, <<"state">>, <<"up", 4, 5>>, <<"srv", "ok">>, <<"pool">>, <<"ubuf">> >>
Big == {<<"up", z, 3>> : z \in {21, 28, 255, 256, 259, 263, 264, 2000}} \cup {<<"down", z, 3, 7>> : z \in {21, 28, 255, 256, 259, 263, 264, 2000}}
ASSUME ScenOn => \A l \in Big : PrintT(<<"BEH", ToJson(Scenario(l))>>)
===============================================================================
