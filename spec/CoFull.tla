------------------------------- MODULE CoFull -------------------------------
(***************************************************************************)
(* The node as a whole: the product of the component reference models      *)
(*   N  CoNode   NMT state machine, dispatch cascade, heartbeat producer,  *)
(*               heartbeat consumers, application timers                   *)
(*   P  CoPdo    TPDO / RPDO / SYNC consumer and producer, 14xxh..1Axxh,   *)
(*               1005h / 1006h, application objects                        *)
(*   E  CoEmcy   error state, 1001h, EMCY frames, 1003h, 1014h             *)
(*   C  CoCsdo   SDO client with its timeout action                        *)
(* synchronised on the events they share: the NMT mode (one authoritative  *)
(* mode, s.n.mode, pushed into the other components after every step),     *)
(* NMT resets (every component's reset operator), the timer tick (every    *)
(* component's countdowns; the actions due on one tick are an unordered    *)
(* set) and the one timer pool (occupancy = sum of the armed actions).     *)
(* The component step operators are used VERBATIM through INSTANCE of the  *)
(* generation modules (their variables are substituted by constants: only  *)
(* their pure operators are used), so the product and the per-property     *)
(* models cannot drift apart.                                              *)
(*                                                                         *)
(* A received frame is dispatched as CONodeProcess does (co_core.c): LSS,  *)
(* SDO server, SDO client, NMT command + heartbeat consumer, RPDO, SYNC,   *)
(* application - each stage gated by the mode at reception.  The letters   *)
(* name the component whose frame class they belong to; identifiers of     *)
(* the configurations are chosen so that no frame matches two services.    *)
(*                                                                         *)
(* The product is too large for a transition cover; it is explored by      *)
(* simulation (two-level choice: group of letters, then letter) and every  *)
(* walk ends with a probe that looks at every service, resets the node and *)
(* looks again (C20 on the product: reset = fresh start with the current   *)
(* dictionary values, also checked as an invariant of the product).        *)
(***************************************************************************)
EXTENDS Integers, Sequences, FiniteSets, TLC, Json, SequencesExt
CONSTANTS NodeId, PoolN, WalkLen,
          HbInit, HcInit,                                 \* N
          NT, NR, Objs, ObjOrder, V0, TC0, RC0, Sync0,    \* P
          Tbl, Depth,                                     \* E
          SrvNode,                                        \* C
          Groups, ProbeLetters, CfgName,
          NRand, RandLetter(_)                            \* letters with parameters drawn at random from wide value ranges
VARIABLES s, hist, grp, gh, rl
vars == <<s, hist, grp, gh, rl>>

NG == INSTANCE CoNodeGen WITH n <- 0, hist <- <<>>, prev <- 0, gh <- 0, Letters <- {}, ProbeLetters <- <<>>, Walk <- FALSE, WalkLen <- 0, EvCap <- 0
PG == INSTANCE CoPdoGen WITH p <- 0, hist <- <<>>, prev <- 0, gh <- 0, Letters <- {}, ProbeLetters <- <<>>, Probe2Letters <- <<>>, Walk <- FALSE, WalkLen <- 0
EG == INSTANCE CoEmcyGen WITH e <- 0, hist <- <<>>, prev <- 0, gh <- 0, Letters <- {}, ProbeLetters <- <<>>, Walk <- FALSE, WalkLen <- 0
CG == INSTANCE CoCsdoGen WITH c <- 0, hist <- <<>>, prev <- 0, gh <- 0, Letters <- {}, ProbeLetters <- <<>>, Walk <- FALSE, WalkLen <- 0, ScenOn <- FALSE,
                              Idx <- 8448, Sub <- 0, TxId <- 1536 + SrvNode, RxId <- 1408 + SrvNode

INIT == 1   PREOP == 2   OPER == 3   STOP == 4
SdoOK(m) == m \in {PREOP, OPER}
FREE == << <<"free">> >>

\* ---- the product state ---------------------------------------------------------------
S0 == [n |-> NG!Bootup(NG!Node0(HbInit, HcInit)).n, p |-> PG!P0, e |-> EG!Emcy0, c |-> CG!C0]
\* the authoritative mode is the NMT component's; the others follow (entering OPERATIONAL activates the PDOs)
SyncMode(ss) == [ss EXCEPT !.p = PG!SetMode(ss.p, ss.n.mode).p, !.e.mode = ss.n.mode]
\* NMT reset (communication or node): every component's reset operator
ResetAll(ss, n1) == [n |-> n1, p |-> PG!ResetCom(ss.p), e |-> [ss.e EXCEPT !.act = {}, !.mode = n1.mode], c |-> CG!C0]
\* a node that was freshly initialised and started with the current dictionary values
FreshFrom(ss) == [n |-> NG!FreshFrom(ss.n), p |-> PG!FreshFromP(ss.p), e |-> [EG!Emcy0 EXCEPT !.hist = ss.e.hist, !.valid = ss.e.valid], c |-> CG!C0]
\* PDO timers that were running when the node left OPERATIONAL keep their slots for a while in the implementation (CoPdoGen)
StalePdoTimers(ss) == ss.p.mode # OPER /\ (\E k \in 1..NT : ss.p.td[k].inhRem > 0 \/ ss.p.td[k].evRem > 0)
ArmedAll(ss) == NG!Armed(ss.n) + PG!ArmedP(ss.p) + (IF ss.c.rem > 0 THEN 1 ELSE 0)

R3(ev, ss, x) == [ev |-> ev, s |-> ss, x |-> x]
Apply(ss, l) ==
  LET m == ss.n.mode IN
  CASE l[1] = "nmt" ->       \* NMT command frame: mode change or reset of every component
         LET a == NG!Apply(ss.n, l)
             hit == NG!NmtOK(m) /\ l[3] \in {0, NodeId} IN
         IF hit /\ l[2] \in {129, 130}
         \* (a client transfer cut off by the reset: whether its completion is signalled is not ruled on)
         THEN R3(a.ev, ResetAll(ss, a.r.n), IF ss.c.busy THEN FREE ELSE a.r.out \o EG!Chg1001(ss.e, [ss.e EXCEPT !.act = {}]))
         ELSE R3(a.ev, SyncMode([ss EXCEPT !.n = a.r.n]), a.r.out)
    [] l[1] = "apireset" ->  \* CONmtReset called by the application (any mode, also while it holds the node in INITIALISATION: no boot-up then)
         LET a == NG!ResetCom(ss.n) IN
         R3(<<"nmt_reset", l[2]>>, SyncMode(ResetAll(ss, a.n)), IF ss.c.busy THEN FREE ELSE a.out \o EG!Chg1001(ss.e, [ss.e EXCEPT !.act = {}]))
    [] l[1] \in {"setmode", "bootup"} -> LET a == NG!Apply(ss.n, l) IN R3(a.ev, SyncMode([ss EXCEPT !.n = a.r.n]), a.r.out)
    [] l[1] = "tick" ->      \* every armed action counts down; those due run in this processing step
         LET a == NG!Tick(ss.n)  b == PG!Tick(ss.p)  c == CG!Tick(ss.c) IN
         R3(<<"tick">>, [ss EXCEPT !.n = a.n, !.p = b.p, !.c = c.c], a.out \o b.out \o c.out)
    [] l[1] = "pool" -> R3(<<"pool">>, ss, IF StalePdoTimers(ss) THEN FREE ELSE << <<"acts", PoolN - ArmedAll(ss)>> >>)
    [] l[1] = "N" -> LET a == NG!Apply(ss.n, l[2]) IN R3(a.ev, [ss EXCEPT !.n = a.r.n], a.r.out)
    [] l[1] = "P" -> LET a == PG!Apply(ss.p, l[2]) IN R3(a.ev, [ss EXCEPT !.p = a.p], a.x)
    [] l[1] = "E" -> LET a == EG!Apply(ss.e, l[2]) IN R3(a.ev, [ss EXCEPT !.e = a.e], a.x)
    [] l[1] = "C" -> LET a == CG!Apply(ss.c, l[2]) IN
                     IF l[2][1] = "srv" /\ ~SdoOK(m)      \* answers reach the client in PRE-OPERATIONAL / OPERATIONAL only
                     THEN R3(a.ev, ss, IF m = INIT THEN << <<"cb", "canrx", 1408 + SrvNode>> >> ELSE FREE)
                     ELSE R3(a.ev, [ss EXCEPT !.c = a.c], a.x)

\* ---- claims on the product (evaluated on the step just taken) -----------------------------
TxIds(x) == {x[k][2] : k \in {j \in 1..Len(x) : x[j][1] = "tx"}}
IsFree(x) == \E k \in 1..Len(x) : x[k][1] \in {"free", "stop"}
PdoIds(ss) == {ss.p.ta[k].id : k \in {j \in 1..NT : ss.p.ta[j].valid}}
StepOk(s0, l, a) ==
  LET m == s0.n.mode  ids == TxIds(a.x) IN
  IsFree(a.x) \/
  \* the components agree on the mode
  /\ a.s.p.mode = a.s.n.mode /\ a.s.e.mode = a.s.n.mode
  \* C20: directly after a reset the node equals a fresh one holding the same dictionary values (application timers untouched)
  /\ (l[1] = "nmt" /\ l[2] \in {129, 130} /\ l[3] \in {0, NodeId} /\ NG!NmtOK(m) => a.s = FreshFrom(s0))
  \* C09: SDO server, EMCY and PDO frames only in the states that permit the service
  /\ ((1408 + NodeId) \in ids => SdoOK(m))
  /\ ((128 + NodeId) \in ids => m \in {PREOP, OPER})
  /\ (ids \cap PdoIds(s0) # {} => (m = OPER \/ a.s.n.mode = OPER))
  \* one timer pool: never more armed actions than slots
  /\ ArmedAll(a.s) <= PoolN

StepRec(ev, x) == [e |-> ev, x |-> x]
Do(l) == LET a == Apply(s, l) IN
         /\ s' = a.s /\ gh' = StepOk(s, l, a) /\ hist' = Append(hist, StepRec(a.ev, a.x)) /\ grp' = 0
Init == s = S0 /\ hist = <<>> /\ grp = 0 /\ gh = TRUE /\ rl = <<>>
\* a walk step first picks a group of letters, then a letter of it (balanced services).  Groups above Len(Groups) are the
\* RANDOM letters: their parameters (payload bytes, times, node ids, object values) are drawn with RandomElement from the whole
\* value range when the group is chosen and kept in rl, so that the letter is evaluated once (simulation only: RandomElement
\* has no meaning in breadth-first search)
Next == IF grp = 0 THEN \E g \in 1..(Len(Groups) + NRand) :
                          /\ grp' = g /\ UNCHANGED <<s, hist, gh>>
                          /\ rl' = (IF g > Len(Groups) THEN RandLetter(g - Len(Groups)) ELSE <<>>)
        ELSE IF grp > Len(Groups) THEN Do(rl) /\ rl' = <<>>
        ELSE \E l \in Groups[grp] : Do(l) /\ rl' = <<>>
InvFull == gh
RECURSIVE RunLetters(_, _, _)
RunLetters(ss, ls, acc) ==
  IF ls = <<>> THEN acc
  ELSE LET a == Apply(ss, Head(ls)) IN RunLetters(a.s, Tail(ls), Append(acc, StepRec(a.ev, a.x)))
Probe == RunLetters(s, ProbeLetters, <<>>)
Cfg == [n |-> NodeId, name |-> CfgName, hb |-> HbInit, hc |-> HcInit, tc |-> TC0, rc |-> RC0, sync |-> Sync0, v |-> [i \in 1..Len(ObjOrder) |-> V0[ObjOrder[i]]],
        tbl |-> Tbl, depth |-> Depth, srv |-> SrvNode]
EmitWalk == Len(hist) < WalkLen \/ (PrintT(<<"WALK", ToJson([c |-> Cfg, h |-> hist, p |-> Probe])>>) /\ FALSE)
=============================================================================
