CONSTANTS NodeId = 5  NT = 2  NR = 1  Walk = FALSE  WalkLen = 0  PoolN = 16  CfgName = "C12"
CONSTANT Objs <- MCObjs  ObjOrder <- MCOrder  V0 <- MCV0  TC0 <- TC12  RC0 <- RC12  Sync0 <- S12  Letters <- L12  ProbeLetters <- P12  Probe2Letters <- PNone
INIT Init
NEXT Next
VIEW ViewM
INVARIANT InvPdo
