------------------------------ MODULE CoEmcyGen ------------------------------
EXTENDS CoEmcy, TLC, Json, SequencesExt
CONSTANTS Letters, ProbeLetters, Walk, WalkLen
VARIABLES e, hist, prev, gh
vars == <<e, hist, prev, gh>>
StepRec(ev, x) == [e |-> ev, x |-> x]
SdoTx == 1408 + NodeId
SdoRx == 1536 + NodeId
Mx(idx, sub) == <<idx % 256, idx \div 256, sub>>
RdResp(idx, sub, bytes) == <<"tx", SdoTx, 8, 67 + 4 * (4 - Len(bytes))>> \o Mx(idx, sub) \o bytes \o [i \in 1..(4 - Len(bytes)) |-> -1]
WrOk(idx, sub) == <<"tx", SdoTx, 8, 96>> \o Mx(idx, sub) \o <<-1, -1, -1, -1>>
Abort(idx, sub, code) == <<"tx", SdoTx, 8, 128>> \o Mx(idx, sub) \o code
RdFrame(idx, sub) == <<"rx", SdoRx, 8, 64>> \o Mx(idx, sub) \o <<0, 0, 0, 0>>
WrFrame(idx, sub, bytes) == <<"rx", SdoRx, 8, 35 + 4 * (4 - Len(bytes))>> \o Mx(idx, sub) \o bytes \o [i \in 1..(4 - Len(bytes)) |-> 0]
U1 == <<52, 18, 1, 2, 3, 4, 5>>        \* manufacturer info: history word 1234h, EMCY bytes 1..5
IdVal(valid) == <<128 + NodeId, 0, 0, IF valid THEN 0 ELSE 128>>
Chg1001(e0, e1) == IF Reg(e0.act) # Reg(e1.act) THEN << <<"chg", 4097, 0, Reg(e1.act)>> >> ELSE <<>>
Apply(ee, l) ==
  CASE l[1] = "set"  -> LET r == Set(ee, l[2], l[3]) IN
                        [ev |-> <<"emcy_set", l[2]>> \o l[3], e |-> r.e, x |-> r.out \o Chg1001(ee, r.e)]
    [] l[1] = "clr"  -> LET r == Clr(ee, l[2]) IN [ev |-> <<"emcy_clr", l[2]>>, e |-> r.e, x |-> r.out \o Chg1001(ee, r.e)]
    [] l[1] = "reset" -> LET r == Reset(ee, l[2]) IN [ev |-> <<"emcy_reset", IF l[2] THEN 1 ELSE 0>>, e |-> r.e, x |-> r.out \o Chg1001(ee, r.e)]
    [] l[1] = "cnt"  -> [ev |-> <<"emcy_cnt">>, e |-> ee, x |-> << <<"ret", Cnt(ee)>> >>]
    [] l[1] = "get"  -> [ev |-> <<"emcy_get", l[2]>>, e |-> ee, x |-> << <<"ret", IF l[2] \in ee.act THEN 1 ELSE 0>> >>]
    [] l[1] = "rdreg" -> [ev |-> <<"rd8", 4097, 0>>, e |-> ee, x |-> << <<"ret", Reg(ee.act)>> >>]
    [] l[1] = "rdhist" -> [ev |-> RdFrame(4099, l[2]), e |-> ee,
                           x |-> IF ~SdoOK(ee.mode) THEN << <<"cb", "canrx", SdoRx>> >>
                                 ELSE IF HistRead(ee, l[2]) = <<>> THEN << <<"free">> >>
                                 ELSE << RdResp(4099, l[2], HistRead(ee, l[2])) >>]
    [] l[1] = "wrhist" -> LET w == HistWrite0(ee, l[2]) IN
                          [ev |-> WrFrame(4099, 0, <<l[2]>>), e |-> IF SdoOK(ee.mode) THEN w.e ELSE ee,
                           x |-> IF ~SdoOK(ee.mode) THEN << <<"cb", "canrx", SdoRx>> >>
                                 ELSE IF w.ok THEN <<WrOk(4099, 0)>> ELSE <<Abort(4099, 0, <<48, 0, 9, 6>>)>>]
    [] l[1] = "wrid" -> \* write 1014h: l[2] = TRUE valid / FALSE invalid, same identifier; accepted in both directions
                        [ev |-> WrFrame(4116, 0, IdVal(l[2])), e |-> IF SdoOK(ee.mode) THEN [ee EXCEPT !.valid = l[2]] ELSE ee,
                         x |-> IF ~SdoOK(ee.mode) THEN << <<"cb", "canrx", SdoRx>> >> ELSE <<WrOk(4116, 0)>>]
    [] l[1] = "wridbad" -> \* another identifier while valid: refused (0609 0030h); while invalid: not sent in this model
                        [ev |-> WrFrame(4116, 0, <<129 + NodeId, 0, 0, 0>>), e |-> ee,
                         x |-> IF ~SdoOK(ee.mode) THEN << <<"cb", "canrx", SdoRx>> >>
                               ELSE IF ee.valid THEN <<Abort(4116, 0, <<48, 0, 9, 6>>)>> ELSE << <<"stop">> >>]
    \* NMT reset command: emergencies cleared silently (a node that the application holds in INITIALISATION does not listen to NMT commands)
    [] l[1] = "nmtreset" -> [ev |-> <<"rx", 0, 2, l[2], NodeId, 0, 0, 0, 0, 0, 0>>, e |-> IF ee.mode = INIT THEN ee ELSE [ee EXCEPT !.act = {}, !.mode = PREOP], x |-> << <<"free">> >>]
    \* CONmtReset called by the application, in any mode (also while the application holds the node in INITIALISATION: it stays there)
    [] l[1] = "apireset" -> [ev |-> <<"nmt_reset", l[2]>>, e |-> [ee EXCEPT !.act = {}, !.mode = IF ee.mode = INIT THEN INIT ELSE PREOP], x |-> << <<"free">> >>]
    [] l[1] = "mode" -> [ev |-> <<"nmt_set", l[2]>>, e |-> [ee EXCEPT !.mode = l[2]], x |-> <<>>]
View == e
Rec(step) == /\ hist' = (IF Walk THEN Append(hist, step) ELSE <<step>>)
             /\ prev' = View
\* C15 on the reference: one frame per real transition, none otherwise; content as specified
StepOk(e0, l, a) ==
  LET txs == {k \in 1..Len(a.x) : a.x[k][1] = "tx" /\ a.x[k][2] = 128 + NodeId} IN
  /\ (l[1] = "set" => Cardinality(txs) = (IF l[2] \notin e0.act /\ EmcyOK(e0.mode) /\ e0.valid THEN 1 ELSE 0))
  /\ (l[1] = "clr" => Cardinality(txs) = (IF l[2] \in e0.act /\ EmcyOK(e0.mode) /\ e0.valid THEN 1 ELSE 0))
  /\ (l[1] = "reset" => Cardinality(txs) = (IF ~l[2] /\ EmcyOK(e0.mode) /\ e0.valid THEN Cardinality(e0.act) ELSE 0))
  /\ (l[1] \in {"reset", "apireset"} \/ (l[1] = "nmtreset" /\ e0.mode # INIT) => a.e.act = {})
  /\ TypeOK(a.e)
Do(l) == LET a == Apply(e, l) IN
         /\ e' = a.e /\ gh' = StepOk(e, l, a)
         /\ Rec(StepRec(a.ev, a.x))
Init == e = Emcy0 /\ hist = <<>> /\ prev = <<>> /\ gh = TRUE
Next == \E l \in Letters : Do(l)
InvC15 == gh
RECURSIVE RunLetters(_, _, _)
RunLetters(ee, ls, acc) ==
  IF ls = <<>> THEN acc
  ELSE LET a == Apply(ee, Head(ls)) IN RunLetters(a.e, Tail(ls), Append(acc, StepRec(a.ev, a.x)))
Probe == RunLetters(e, ProbeLetters, <<>>)
Cfg == [n |-> NodeId, depth |-> Depth, tbl |-> Tbl]
EmitEdge == hist = <<>> \/ PrintT(<<"EDGE", ToJson([c |-> Cfg, s |-> prev, e |-> hist[Len(hist)], d |-> View, p |-> Probe])>>)
EmitWalk == Len(hist) < WalkLen \/ (PrintT(<<"WALK", ToJson([c |-> Cfg, h |-> hist, p |-> Probe])>>) /\ FALSE)
\* VIEW of the model-checking configurations: TLC evaluates invariants only on states it has not seen before, and "seen" is
\* decided on the VIEW; a step verdict kept in a ghost variable must therefore be part of it, or a violating edge INTO A KNOWN
\* STATE would be discarded unexamined (the generation configurations keep the plain View: the verdict is not behaviour)
ViewM == <<View, gh>>
=============================================================================
