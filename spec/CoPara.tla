------------------------------- MODULE CoPara -------------------------------
(***************************************************************************)
(* Parameter store / restore: 1010h, 1011h, load at initialisation and on  *)
(* NMT reset (co_para_store.c, co_para_restore.c, co_if_nvm.c, co_nmt.c).  *)
(* RAM and NVM are flat byte arrays with the same layout; a group is       *)
(*   [off, size, type (1 = reset node, 2 = reset communication), en]       *)
(* Subs(k) gives the groups addressed by sub-index k: sub-index 1 of a     *)
(* dictionary with more than one sub-index fans out to the groups of       *)
(* sub-indices 2..N.                                                       *)
(* The NVM driver may return a short count on its fault-th next call.      *)
(***************************************************************************)
EXTENDS CoBytes, FiniteSets
CONSTANTS Groups,      \* Seq of group records, indexed by sub-index (1..N)
          Dflt,        \* RAM image at power-up (the compiled-in values) = what COParaDefault restores
          NodeId

N == Len(Groups)
\* a record with type 0 marks a sub-index that does NOT exist in 1010h / 1011h (sub-index 0 only gives the highest one: gaps are legal)
IsGap(g) == g.type = 0
Subs(k) == IF k = 1 /\ N > 1 THEN SelectSeq([i \in 1..(N - 1) |-> i + 1], LAMBDA j : ~IsGap(Groups[j])) ELSE <<k>>
Para0 == [ram |-> Dflt, nvm |-> [i \in 1..Len(Dflt) |-> 0], fault |-> 0, short |-> 0, err |-> FALSE]
R(p, out, ok) == [p |-> p, out |-> out, ok |-> ok]
\* one driver call of `size' bytes: [n, p] = bytes transferred and the state with the fault counter advanced
Drv(p, size) == IF p.fault = 1 THEN [n |-> IF size > p.short THEN size - p.short ELSE 0, p |-> [p EXCEPT !.fault = 0]]
                ELSE [n |-> size, p |-> [p EXCEPT !.fault = IF @ > 1 THEN @ - 1 ELSE 0]]
Splice(a, off, bytes) == SubSeq(a, 1, off) \o bytes \o SubSeq(a, off + Len(bytes) + 1, Len(a))
Slice(a, off, n) == SubSeq(a, off + 1, off + n)
\* COParaStore of group g
Store(p, g) ==
  IF ~g.en THEN R(p, <<>>, TRUE)
  ELSE LET d == Drv(p, g.size)
           data == Slice(p.ram, g.off, d.n) IN
       R([d.p EXCEPT !.nvm = Splice(@, g.off, data)], << <<"nvmwr", g.off, g.size, d.n>> \o data >>, d.n = g.size)
RECURSIVE StoreAll(_, _, _)
StoreAll(p, ks, out) == IF ks = <<>> THEN R(p, out, TRUE)
                        ELSE LET s == Store(p, Groups[Head(ks)]) IN
                             IF s.ok THEN StoreAll(s.p, Tail(ks), out \o s.out) ELSE R(s.p, out \o s.out, FALSE)
\* COParaRestore: the default-value callback for the enabled groups
RECURSIVE RestoreAll(_, _, _)
RestoreAll(p, ks, out) == IF ks = <<>> THEN R(p, out, TRUE)
                          ELSE LET g == Groups[Head(ks)] IN
                               IF g.en THEN RestoreAll([p EXCEPT !.ram = Splice(@, g.off, Slice(Dflt, g.off, g.size))], Tail(ks), Append(out, <<"cb", "paradef", Head(ks) - 1>>))
                               ELSE RestoreAll(p, Tail(ks), out)
\* CONodeParaLoad(type): every group of that reset type is read back from NVM
RECURSIVE LoadFrom(_, _, _, _)
LoadFrom(p, k, type, out) ==
  IF k > N THEN R(p, out, TRUE)
  ELSE LET g == Groups[k] IN
       IF g.type # type THEN LoadFrom(p, k + 1, type, out)
       ELSE LET d == Drv(p, g.size)
                p1 == [d.p EXCEPT !.ram = Splice(@, g.off, Slice(p.nvm, g.off, d.n)), !.err = @ \/ d.n # g.size]
            IN LoadFrom(p1, k + 1, type, Append(out, <<"nvmrd", g.off, g.size, d.n>>))
Load(p, type) == LoadFrom(p, 1, type, <<>>)
LoadBoth(p) == LET a == Load(p, 1)  b == Load(a.p, 2) IN R(b.p, a.out \o b.out, TRUE)
\* power cycle: RAM back to the compiled-in image, NVM kept, then initialisation loads both types
\* Named deviation InitLoadStopsAtFirstFault: the object initialisation at node start gives up after a
\* faulty load of the reset-node groups (the fault is surfaced as node error, which is all the property
\* demands); the RAM of the reset-communication groups is then unspecified (-1 = unknown byte).
UnknownType(p, type) == [p EXCEPT !.ram = [i \in 1..Len(@) |-> IF \E k \in 1..N : Groups[k].type = type /\ i > Groups[k].off /\ i <= Groups[k].off + Groups[k].size
                                                             THEN -1 ELSE @[i]]]
Restart(p) == LET p0 == [p EXCEPT !.ram = Dflt, !.err = FALSE]
                  a == Load(p0, 1) IN
              IF a.p.err THEN R(UnknownType(a.p, 2), a.out \o << <<"nvmrd?">> >>, TRUE)
              ELSE LET b == Load(a.p, 2) IN R(b.p, a.out \o b.out, TRUE)
ResetNode(p) == LoadBoth(p)
ResetCom(p) == Load(p, 2)
=============================================================================
