CONSTANTS Max = 4  Walk = TRUE  WalkLen = 40  ProbeTicks = 11
CONSTANT Pairs <- PairsWalk
INIT Init
NEXT Next
CONSTRAINT EmitWalk
