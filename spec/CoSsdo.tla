------------------------------- MODULE CoSsdo -------------------------------
(***************************************************************************)
(* SDO server, src/service/cia301/co_ssdo.c -- reference semantics.        *)
(*                                                                         *)
(* Functional core:  Step(s, d, f) == [s, d, out, open]                    *)
(*   s    server record (below)        d    dictionary: Seq of objects     *)
(*   f    request, 8 bytes             out  sequence of response frames    *)
(*   open classification of the step for the oracle (see Gen modules):     *)
(*        "det"  the response is determined by CiA 301 / the property      *)
(*        "free" the properties leave the reaction open; the server is     *)
(*               considered to have dropped the transfer (state unknown    *)
(*               to the reference until the next client abort / reset)     *)
(*                                                                         *)
(* The server record keeps the decoding structure of the C code (the block *)
(* state is consulted before the command byte), but holds the transfer     *)
(* data at protocol level:                                                 *)
(*   mode  "idle"                    Obj = 0, BLK_IDLE                     *)
(*         "dseg" / "useg"           segmented transfer open               *)
(*         "bdl" / "bdw"             BLK_DOWNLOAD / BLK_DNWAIT             *)
(*         "bui"                     block upload initiated, not started   *)
(*         "bul"                     BLK_UPLOAD: block sent, awaiting ack  *)
(*   o     position of the open object in d (0 = none)                     *)
(*   idx, sub  latched multiplexer                                         *)
(*   tb    expected toggle bit                                             *)
(*   ann   announced size of a download (0 = not announced)                *)
(*   got   payload bytes received so far (download)                        *)
(*   blkn  bytes of `got' that belong to the block being received          *)
(*   cnt   segments accepted in the current block, err = sequence error    *)
(*   pos   upload: number of object bytes delivered and acknowledged       *)
(*   bs    upload block size requested by the client                       *)
(*   sent  upload: segments sent in the current block                      *)
(*   lastv upload: valid bytes in the last segment sent                    *)
(* Object bytes may be -1 = unknown (after an aborted download the content *)
(* of the target is not constrained by any property).                      *)
(***************************************************************************)
EXTENDS CoBytes, FiniteSets
CONSTANTS SegMax      \* CO_SDO_BUF_SEG: segments per block (127; 3 on the H0 build variant)

Idle == [mode |-> "idle", o |-> 0, idx |-> 0, sub |-> 0, tb |-> 0, ann |-> 0, got |-> <<>>, blkn |-> 0,
         cnt |-> 0, err |-> FALSE, pos |-> 0, bs |-> 0, sent |-> 0, lastv |-> 0]

\* ---- frames ----------------------------------------------------------------
Cmd(f) == f[1]
FIdx(f) == f[2] + 256 * f[3]
FSub(f) == f[4]
Bit(v, b) == (v \div (2^b)) % 2
And(v, m) == LET RECURSIVE A(_, _, _)
                 A(x, y, k) == IF k = 8 THEN 0 ELSE (IF x % 2 = 1 /\ y % 2 = 1 THEN 2^k ELSE 0) + A(x \div 2, y \div 2, k+1)
             IN A(v, m, 0)
\* 32-bit little-endian field at bytes 5..8: value if it fits in 24 bits, else "huge"
Huge(f) == f[8] # 0
Long(f) == f[5] + 256 * f[6] + 65536 * f[7]
AbortFrm(idx, sub, code) == <<128, idx % 256, idx \div 256, sub>> \o code
AnyAbort(idx, sub) == <<128, idx % 256, idx \div 256, sub, -1, -1, -1, -1>>
AbortAnyMux == <<128, -1, -1, -1, -1, -1, -1, -1>>
\* abort codes, little endian
A_TBIT    == <<0, 0, 3, 5>>      A_CMD   == <<1, 0, 4, 5>>     A_BLKSIZE == <<2, 0, 4, 5>>   A_SEQ == <<3, 0, 4, 5>>
A_RD      == <<1, 0, 1, 6>>      A_WR    == <<2, 0, 1, 6>>     A_OBJ     == <<0, 0, 2, 6>>   A_SUB == <<17, 0, 9, 6>>
A_LENHIGH == <<18, 0, 7, 6>>     A_LENSMALL == <<19, 0, 7, 6>> A_RANGE   == <<48, 0, 9, 6>>  A_TOS == <<32, 0, 0, 8>>
A_ANY     == <<-1, -1, -1, -1>>

\* ---- dictionary ------------------------------------------------------------
\* object: [idx, sub, r, w, kind, data, abort]   kind "int" | "dom" | "str" | "app"
\*   "app": 4-byte object whose write is refused by the application with code `abort'
Lookup(d, idx, sub) == IF \E p \in 1..Len(d) : d[p].idx = idx /\ d[p].sub = sub
                       THEN CHOOSE p \in 1..Len(d) : d[p].idx = idx /\ d[p].sub = sub ELSE 0
IdxExists(d, idx) == \E p \in 1..Len(d) : d[p].idx = idx /\ d[p].sub = 0
\* COSdoGetObject: position or abort code
GetObj(d, idx, sub, wr) ==
  LET p == Lookup(d, idx, sub) IN
  IF p = 0 THEN [p |-> 0, code |-> IF sub # 0 /\ IdxExists(d, idx) THEN A_SUB ELSE A_OBJ]
  ELSE IF wr /\ ~d[p].w THEN [p |-> 0, code |-> A_WR]
  ELSE IF ~wr /\ ~d[p].r THEN [p |-> 0, code |-> A_RD]
  ELSE [p |-> p, code |-> <<>>]
ObjSize(ob) == Len(ob.data)
\* COSdoGetSize through the type's size function: [size, code]
\*   integers answer their fixed size, domains min(width, size) (width 0 -> size), strings their length
GetSize(ob, width, huge, strict) ==
  LET sz == IF ob.kind = "dom" /\ width # 0 /\ ~huge THEN Min(width, ObjSize(ob)) ELSE ObjSize(ob) IN
  IF width = 0 /\ ~huge THEN [size |-> sz, code |-> <<>>]
  ELSE IF ~huge /\ sz = width THEN [size |-> sz, code |-> <<>>]
  ELSE IF ~huge /\ width < sz THEN (IF strict THEN [size |-> 0, code |-> A_LENSMALL] ELSE [size |-> width, code |-> <<>>])
  ELSE [size |-> 0, code |-> A_LENHIGH]
Unknown(ob) == IF ob.kind = "str" THEN ob ELSE [ob EXCEPT !.data = [i \in 1..Len(ob.data) |-> -1]]
\* a confirmed download: first Len(bytes) bytes replaced, tail untouched
Written(ob, bytes) == [ob EXCEPT !.data = Take(bytes, Len(ob.data)) \o Drop(ob.data, Len(bytes))]
DropTransfer(s, d) == IF s.o # 0 /\ s.mode \in {"dseg", "bdl", "bdw"} /\ s.got # <<>>
                      THEN [d EXCEPT ![s.o] = Unknown(@)] ELSE d

R(s, d, out, open) == [s |-> s, d |-> d, out |-> out, open |-> open]
\* refuse: abort frame, transfer (if any) dropped
Refuse(s, d, idx, sub, code) == R(Idle, DropTransfer(s, d), <<AbortFrm(idx, sub, code)>>, "det")
\* the reaction is left open by the properties: any frames; the transfer is dropped
Open(s, d) == R(Idle, IF s.o # 0 THEN [d EXCEPT ![s.o] = Unknown(@)] ELSE d, <<>>, "free")

\* ---- expedited ---------------------------------------------------------------
ExpDownload(s, d, f) ==
  LET idx == FIdx(f)  sub == FSub(f)  g == GetObj(d, idx, sub, TRUE) IN
  IF g.p = 0 THEN Refuse(s, d, idx, sub, g.code)
  ELSE LET ob == d[g.p]
           width == IF Cmd(f) % 2 = 1 THEN 4 - ((Cmd(f) \div 4) % 4) ELSE 0
           z == GetSize(ob, width, FALSE, TRUE) IN
       IF z.code # <<>> THEN Refuse(s, d, idx, sub, z.code)
       ELSE IF z.size > 4 THEN Refuse(s, d, idx, sub, A_ANY)           \* s = 0 to an object larger than 4 bytes
       ELSE IF ob.kind = "app" THEN Refuse(s, d, idx, sub, ob.abort)
       ELSE IF ob.kind = "str" THEN Refuse(s, d, idx, sub, A_ANY)
       \* (if this request replaces an open download of the same object, the tail is what that transfer left: unknown)
       ELSE R(Idle, [DropTransfer(s, d) EXCEPT ![g.p] = Written(@, SubSeq(f, 5, 4 + z.size))],
              << <<96, f[2], f[3], f[4], -1, -1, -1, -1>> >>, "det")

ExpUpload(s, d, f) ==
  LET idx == FIdx(f)  sub == FSub(f)  g == GetObj(d, idx, sub, FALSE) IN
  IF g.p = 0 THEN Refuse(s, d, idx, sub, g.code)
  ELSE LET ob == d[g.p]  sz == ObjSize(ob) IN
       IF sz <= 4
       THEN R(Idle, DropTransfer(s, d), << <<67 + 4 * (4 - sz), f[2], f[3], f[4]>> \o ob.data \o [i \in 1..(4 - sz) |-> -1] >>, "det")
       ELSE R([Idle EXCEPT !.mode = "useg", !.o = g.p, !.idx = idx, !.sub = sub], DropTransfer(s, d),
              << <<65, f[2], f[3], f[4]>> \o LE(sz, 3) \o <<0>> >>, "det")

\* ---- segmented upload ---------------------------------------------------------
UpSegment(s, d, f) ==
  IF s.mode # "useg" THEN (IF s.mode = "idle" THEN R(Idle, d, <<AbortAnyMux>>, "det") ELSE Open(s, d))
  ELSE IF Bit(Cmd(f), 4) # s.tb THEN Refuse(s, d, s.idx, s.sub, A_TBIT)
  ELSE LET ob == d[s.o]
           rest == ObjSize(ob) - s.pos
           n == Min(7, rest)
           last == rest <= 7
           data == SubSeq(ob.data, s.pos + 1, s.pos + n) IN
       R(IF last THEN Idle ELSE [s EXCEPT !.pos = @ + n, !.tb = 1 - @], d,
         << <<16 * s.tb + 2 * (7 - n) + (IF last THEN 1 ELSE 0)>> \o data \o [i \in 1..(7 - n) |-> -1] >>, "det")

\* ---- segmented download -------------------------------------------------------
InitDownSeg(s, d, f) ==
  LET idx == FIdx(f)  sub == FSub(f)  g == GetObj(d, idx, sub, TRUE) IN
  IF g.p = 0 THEN Refuse(s, d, idx, sub, g.code)
  ELSE LET ob == d[g.p]
           sbit == Cmd(f) % 2 = 1
           z == GetSize(ob, IF sbit THEN Long(f) ELSE 0, sbit /\ Huge(f), TRUE) IN
       IF z.code # <<>> THEN Refuse(s, d, idx, sub, z.code)
       ELSE R([Idle EXCEPT !.mode = "dseg", !.o = g.p, !.idx = idx, !.sub = sub, !.ann = IF sbit THEN z.size ELSE 0],
              DropTransfer(s, d), << <<96, f[2], f[3], f[4], -1, -1, -1, -1>> >>, "det")

DownSegment(s, d, f) ==
  IF s.mode # "dseg" THEN (IF s.mode = "idle" THEN R(Idle, d, <<AbortAnyMux>>, "det") ELSE Open(s, d))
  ELSE IF Bit(Cmd(f), 4) # s.tb THEN Refuse(s, d, s.idx, s.sub, A_TBIT)
  ELSE LET ob == d[s.o]
           n == (Cmd(f) \div 2) % 8
           last == Cmd(f) % 2 = 1
           k == 7 - n
           got == s.got \o SubSeq(f, 2, 1 + k)
           limit == IF s.ann # 0 THEN s.ann ELSE ObjSize(ob) IN
       \* conforming clients fill every segment but the last; everything else is left open
       IF (~last /\ n # 0) \/ Len(got) > limit \/ (last /\ s.ann # 0 /\ Len(got) # s.ann) \/ k = 0 THEN Open(s, d)
       ELSE IF last
            THEN IF ob.kind \in {"int", "app"} /\ Len(got) # ObjSize(ob) THEN Refuse([s EXCEPT !.got = got], d, s.idx, s.sub, A_ANY)
                 ELSE IF ob.kind = "app" THEN Refuse([s EXCEPT !.got = got], d, s.idx, s.sub, A_ANY)
                 ELSE R(Idle, [d EXCEPT ![s.o] = Written(ob, got)], << <<32 + 16 * s.tb, -1, -1, -1, -1, -1, -1, -1>> >>, "det")
            ELSE R([s EXCEPT !.got = got, !.tb = 1 - @], d, << <<32 + 16 * s.tb, -1, -1, -1, -1, -1, -1, -1>> >>, "det")

\* ---- block download -------------------------------------------------------------
InitDownBlk(s, d, f) ==
  LET idx == FIdx(f)  sub == FSub(f)  g == GetObj(d, idx, sub, TRUE) IN
  IF g.p = 0 THEN Refuse(s, d, idx, sub, g.code)
  ELSE LET ob == d[g.p]
           sbit == Bit(Cmd(f), 1) = 1
           z == GetSize(ob, IF sbit THEN Long(f) ELSE 0, sbit /\ Huge(f), FALSE) IN
       IF z.code # <<>> THEN Refuse(s, d, idx, sub, z.code)
       ELSE R([Idle EXCEPT !.mode = "bdl", !.o = g.p, !.idx = idx, !.sub = sub, !.ann = z.size],
              DropTransfer(s, d), << <<160, f[2], f[3], f[4], SegMax, -1, -1, -1>> >>, "det")

AckDown(ack) == <<162, ack, SegMax, -1, -1, -1, -1, -1>>
\* a frame while a block is being received: every byte 0 is a sequence number
DownBlkSeg(s, d, f) ==
  LET seq == Cmd(f) % 128
      last == Cmd(f) >= 128
      full == Len(s.got) >= s.ann            \* announced (or object) size already received
  IN IF ~s.err /\ seq = s.cnt + 1
     THEN IF full THEN Refuse(s, d, s.idx, s.sub, A_LENHIGH)
          ELSE LET s1 == [s EXCEPT !.got = @ \o SubSeq(f, 2, 8), !.blkn = @ + 7, !.cnt = @ + 1] IN
               IF s1.cnt = SegMax \/ last
               THEN R([s1 EXCEPT !.mode = "bdw", !.cnt = 0, !.blkn = IF last THEN s1.blkn ELSE 0], d, <<AckDown(s1.cnt)>>, "det")
               ELSE R(s1, d, <<>>, "det")
     ELSE \* sequence error: the rest of the block is ignored, the last good segment is acknowledged at its end
          IF seq = SegMax \/ last
          THEN R([s EXCEPT !.err = FALSE, !.cnt = 0, !.blkn = 0, !.mode = "bdl"], d, <<AckDown(s.cnt)>>, "det")
          ELSE R([s EXCEPT !.err = TRUE], d, <<>>, "det")

EndDownBlk(s, d, f) ==
  LET n == (Cmd(f) \div 4) % 8
      ob == d[s.o] IN
  IF Cmd(f) % 2 = 0 THEN Open(s, d)
  ELSE IF n > s.blkn \/ n > 6 \/ s.blkn = 0 THEN Open(s, d)         \* not a conforming end (n counts the unused bytes of the last segment)
  ELSE LET got == Take(s.got, Len(s.got) - n) IN
       IF Len(got) > ObjSize(ob) \/ (ob.kind \in {"int", "app"} /\ Len(got) # ObjSize(ob)) \/ ob.kind = "app" THEN Open(s, d)
       ELSE R(Idle, [d EXCEPT ![s.o] = Written(ob, got)], << <<161, -1, -1, -1, -1, -1, -1, -1>> >>, "det")

\* ---- block upload -----------------------------------------------------------------
InitUpBlk(s, d, f) ==
  LET idx == FIdx(f)  sub == FSub(f)  g == GetObj(d, idx, sub, FALSE) IN
  IF g.p = 0 THEN Refuse(s, d, idx, sub, g.code)
  ELSE IF f[5] < 1 \/ f[5] > 127 THEN Refuse(s, d, idx, sub, A_BLKSIZE)
  ELSE LET ob == d[g.p] IN
       R([Idle EXCEPT !.mode = "bui", !.o = g.p, !.idx = idx, !.sub = sub, !.bs = Min(f[5], SegMax)], DropTransfer(s, d),
         << <<194, f[2], f[3], f[4]>> \o LE(ObjSize(ob), 3) \o <<0>> >>, "det")
\* the segments of one block starting at object offset pos
BlockFrames(ob, pos, bs) ==
  LET rest == ObjSize(ob) - pos
      nseg == Min(bs, (rest + 6) \div 7) IN
  [k \in 1..nseg |->
     LET off == pos + 7 * (k - 1)
         n == Min(7, ObjSize(ob) - off)
         fin == off + n = ObjSize(ob) IN
     <<k + (IF fin THEN 128 ELSE 0)>> \o SubSeq(ob.data, off + 1, off + n) \o [i \in 1..(7 - n) |-> -1]]
SendBlock(s, d) ==
  LET ob == d[s.o]
      fr == BlockFrames(ob, s.pos, s.bs)
      nb == Min(7 * Len(fr), ObjSize(ob) - s.pos) IN
  R([s EXCEPT !.mode = "bul", !.sent = Len(fr), !.lastv = nb - 7 * (Len(fr) - 1)], d, fr, "det")
StartUpBlk(s, d, f) ==
  IF s.mode = "bui" THEN SendBlock(s, d)
  ELSE IF s.mode = "idle" THEN R(Idle, d, <<AbortAnyMux>>, "det") ELSE Open(s, d)
AckUpBlk(s, d, f) ==
  LET ack == f[2]
      ob == d[s.o]
      pos1 == Min(s.pos + 7 * ack, ObjSize(ob)) IN
  IF ack > s.sent THEN Refuse(s, d, s.idx, s.sub, A_SEQ)
  ELSE IF pos1 = ObjSize(ob) /\ ack = s.sent
       THEN R([s EXCEPT !.pos = pos1, !.mode = "bue"], d, << <<193 + 4 * (7 - s.lastv), -1, -1, -1, -1, -1, -1, -1>> >>, "det")
       ELSE IF f[3] < 1 \/ f[3] > 127 THEN Refuse(s, d, s.idx, s.sub, A_BLKSIZE)
            ELSE SendBlock([s EXCEPT !.pos = pos1, !.bs = Min(f[3], SegMax)], d)

\* ---- COSdoResponse: the decoding cascade -----------------------------------------
IsInitiate(c) == And(c, 242) = 34 \/ c = 64 \/ And(c, 242) = 32 \/ And(c, 249) = 192 \/ And(c, 227) = 160
Step(s, d, f) ==
  LET c == Cmd(f) IN
  IF c = 128 THEN R(Idle, DropTransfer(s, d), <<>>, "abort")                      \* client abort: acknowledgement unconstrained
  ELSE IF s.mode = "bdl" THEN DownBlkSeg(s, d, f)
  ELSE IF s.mode = "bdw" THEN (IF And(c, 227) = 193 THEN EndDownBlk(s, d, f)
                               ELSE IF s.blkn > 0 THEN Open(s, d)              \* a segment after the last one: not conforming
                               ELSE DownBlkSeg([s EXCEPT !.mode = "bdl"], d, f))
  ELSE IF s.mode \in {"bul", "bue"} THEN
       (IF c = 161 THEN (IF s.mode = "bue" THEN R(Idle, d, <<>>, "det") ELSE Open(s, d))
        ELSE IF And(c, 227) = 162 /\ s.mode = "bul" THEN AckUpBlk(s, d, f)
        ELSE IF And(c, 227) = 162 THEN Open(s, d)
        ELSE Refuse(s, d, s.idx, s.sub, A_CMD))
  \* Blk.State = IDLE: decode by command; an initiate while a segmented transfer (or an
  \* initiated block upload) is open abandons it and is served afresh
  ELSE IF And(c, 242) = 34 THEN ExpDownload(s, d, f)
  ELSE IF c = 64 THEN ExpUpload(s, d, f)
  ELSE IF And(c, 242) = 32 THEN InitDownSeg(s, d, f)
  ELSE IF And(c, 224) = 0 THEN DownSegment(s, d, f)
  ELSE IF And(c, 239) = 96 THEN UpSegment(s, d, f)
  ELSE IF And(c, 249) = 192 THEN InitDownBlk(s, d, f)
  ELSE IF And(c, 227) = 160 THEN InitUpBlk(s, d, f)
  ELSE IF c = 163 THEN StartUpBlk(s, d, f)
  ELSE IF s.mode = "idle" THEN R(Idle, d, << <<128, -1, -1, -1>> \o A_CMD >>, "det")
  ELSE Refuse(s, d, s.idx, s.sub, A_CMD)

\* design invariants of the reference (C01: the buffered block never exceeds the buffer)
SrvOK(s, d) ==
  /\ s.blkn <= 7 * SegMax
  /\ s.mode # "idle" => s.o \in 1..Len(d)
  /\ s.mode \in {"useg", "bul", "bue", "bui"} => s.pos <= ObjSize(d[s.o])
  /\ s.mode \in {"dseg", "bdl", "bdw"} => Len(s.got) <= ObjSize(d[s.o]) + 6
=============================================================================
