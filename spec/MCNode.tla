-------------------------------- MODULE MCNode --------------------------------
EXTENDS CoNodeGen
\* ---- C09 ----
L09 == {<<"nmt", cs, t>> : cs \in {1, 2, 128, 129, 130, 3, 0}, t \in {0, 5, 6}}
       \cup {<<"setmode", m>> : m \in {1, 2, 3, 4}} \cup {<<"bootup">>}      \* (1 = INITIALISATION: the application holds the node there, CONmtBootup ends it)
       \cup {<<"sdord", 4096, 0>>, <<"sdowr", 8448, 0, <<7>>>>, <<"rpdo", 9>>, <<"rpdo", 3>>, <<"sync">>, <<"lss">>, <<"other", 291>>, <<"other", 1413>>,
             \* identifiers whose low byte is the monitored node (10) or the own node id, in other function-code ranges: not a heartbeat
             <<"other", 1546>>, <<"other", 778>>, <<"other", 266>>, <<"other", 261>>,
             <<"hb", 10, 5>>, <<"hb", 11, 5>>, <<"emcyset">>, <<"emcyclr">>, <<"trig">>, <<"tick">>, <<"getmode">>}
P09 == << <<"getmode">>, <<"sdord", 8448, 0>>, <<"sdord", 8449, 0>>, <<"rpdo", 77>>, <<"trig">>, <<"other", 291>>, <<"emcyset">>, <<"emcyclr">>,
          <<"tick">>, <<"tick">>, <<"tick">>, <<"hbev", 10>>, <<"nmt", 130, 5>>, <<"getmode">>, <<"sdord", 8449, 0>>, <<"tick">>, <<"tick">>, <<"tick">> >>
\* ---- C10 ----
L10 == {<<"tick">>, <<"nmt", 1, 0>>, <<"nmt", 2, 5>>, <<"nmt", 128, 5>>, <<"nmt", 130, 5>>, <<"nmt", 129, 0>>}
       \cup {<<"sdowr", 4119, 0, <<t, 0>>>> : t \in {0, 1, 2, 3}} \cup {<<"apihb", 2>>, <<"apihb", 0>>, <<"apihb", 4>>}
       \cup {<<"hb", 10, 5>>, <<"trig">>, <<"sdord", 4119, 0>>, <<"setmode", 1>>, <<"bootup">>}
       \* the whole value range of 1017h: the largest positive and the smallest "negative" 16-bit value, the largest value
       \cup {<<"sdowr", 4119, 0, <<255, 127>>>>, <<"sdowr", 4119, 0, <<0, 128>>>>, <<"sdowr", 4119, 0, <<255, 255>>>>, <<"apihb", 32768>>, <<"apihb", 40000>>}
P10 == << <<"pool">>, <<"sdord", 4119, 0>>, <<"tick">>, <<"tick">>, <<"tick">>, <<"tick">>, <<"tick">>, <<"tick">>, <<"tick">>, <<"tick">>, <<"tick">> >>
\* ---- C11 ----
HcW(k, node, time) == <<"sdowr", 4118, k, <<time % 256, time \div 256, node, 0>>>>
L11 == {<<"tick">>, <<"other", 1546>>, <<"other", 522>>, <<"other", 1803 - 1792 + 1024>>} \cup {<<"hb", nd, st>> : nd \in {10, 11, 12}, st \in {5, 127}} \cup {<<"hb", 10, 9>>}
       \cup {HcW(k, nd, t) : k \in {1, 2}, nd \in {10, 11, 12}, t \in {0, 2, 3}}
       \cup {<<"hbev", nd>> : nd \in {10, 11, 12}} \cup {<<"hblast", nd>> : nd \in {10, 11}} \cup {<<"sdord", 4118, 1>>, <<"sdord", 4118, 2>>}
       \cup {HcW(1, 10, 32768), HcW(2, 12, 65535)}        \* the value range of the 16-bit consumer time
       \cup {<<"nmt", 130, 5>>}                            \* reset communication: monitoring starts afresh with the first heartbeat
L11Q == {<<"tick">>, <<"other", 1546>>, <<"other", 522>>} \cup {<<"hb", nd, 5>> : nd \in {10, 11, 12}} \cup {<<"hb", 10, 127>>}
       \cup {HcW(k, nd, t) : k \in {1, 2}, nd \in {10, 11}, t \in {0, 2}} \cup {HcW(1, 12, 2)}
       \cup {<<"hbev", nd>> : nd \in {10, 11}} \cup {<<"hblast", 10>>, <<"sdord", 4118, 2>>} \cup {HcW(1, 10, 40000), <<"nmt", 130, 5>>}
P11 == << <<"pool">>, <<"sdord", 4118, 1>>, <<"sdord", 4118, 2>>, <<"hb", 10, 5>>, <<"hb", 11, 5>>, <<"hb", 12, 5>>, <<"tick">>, <<"tick">>, <<"tick">>, <<"tick">>, <<"tick">>, <<"tick">>,
          <<"hbev", 10>>, <<"hbev", 11>>, <<"hbev", 12>>, <<"hblast", 10>>, <<"hblast", 11>>, <<"hblast", 12>>, <<"pool">>, <<"hb", 10, 127>>, <<"tick">>, <<"tick">>, <<"tick">>, <<"pool">> >>
\* ---- C20 (node services part): heartbeat producer + two consumers + application timers, reset in every state
L20 == {<<"tick">>, <<"nmt", 130, 5>>, <<"nmt", 129, 0>>, <<"nmt", 1, 5>>, <<"nmt", 2, 5>>, <<"hb", 10, 5>>, <<"hb", 11, 127>>}
       \cup {<<"sdowr", 4119, 0, <<t, 0>>>> : t \in {0, 3}} \cup {HcW(2, 11, 2), HcW(1, 12, 3), HcW(2, 11, 0)} \cup {<<"apptmr", 1, 2, 2>>, <<"apptmr", 2, 3, 0>>, <<"emcyset">>}
L20Q == {<<"tick">>, <<"nmt", 130, 5>>, <<"nmt", 1, 5>>, <<"hb", 10, 5>>, <<"sdowr", 4119, 0, <<3, 0>>>>, HcW(2, 11, 2), <<"apptmr", 1, 2, 2>>, <<"emcyset">>}
P20 == << <<"pool">>, <<"nmt", 130, 5>>, <<"pool">>, <<"getmode">>, <<"hbev", 10>>, <<"hblast", 10>>, <<"tick">>, <<"tick">>, <<"tick">>, <<"pool">>, <<"hb", 10, 5>>, <<"hb", 11, 5>>, <<"hb", 12, 5>>, <<"pool">>,
          <<"tick">>, <<"tick">>, <<"tick">>, <<"tick">>, <<"hbev", 10>>, <<"hbev", 11>>, <<"emcyset">>, <<"nmt", 129, 0>>, <<"pool">>, <<"tick">>, <<"tick">>, <<"tick">>, <<"emcyset">>, <<"pool">> >>
LNone == {}
EmitPump11 == EmitPump(10, 2, {1, 3, 254, 255, 256, 257, 300, 511, 512, 600})
HC20 == << <<10, 2>>, <<0, 0>> >>
HC09 == << <<10, 2>> >>
HC10 == << <<10, 3>> >>
HC11 == << <<10, 2>>, <<0, 0>> >>
===============================================================================
