CONSTANTS NodeId = 5  HbInit = 2  Walk = FALSE  WalkLen = 0  EvCap = 1  PoolN = 16
CONSTANT Letters <- L20  HcInit <- HC20  ProbeLetters <- P20
INIT Init
NEXT Next
VIEW ViewM
CONSTRAINT Bound
INVARIANTS InvC09 InvC10 InvC11 InvC20
