CONSTANTS NodeId = 5  HbInit = 0  Walk = FALSE  WalkLen = 0  EvCap = 3  PoolN = 16
CONSTANT Letters <- L11  HcInit <- HC11  ProbeLetters <- P11
INIT Init
NEXT Next
VIEW ViewM
CONSTRAINT Bound
INVARIANTS InvC09 InvC10 InvC11 InvC20
