------------------------------ MODULE CoDictGen ------------------------------
(***************************************************************************)
(* C06: checks the CoDict reference against the property for every         *)
(* dictionary over a key universe / every entry kind, value and length of  *)
(* the access alphabet (ASSUME, evaluated exhaustively by TLC), and emits  *)
(* the corresponding behaviours with predicted observations for replay.    *)
(***************************************************************************)
EXTENDS CoDict, TLC, Json, SequencesExt
CONSTANTS U,          \* universe of lookup entries (records idx, sub, flags)
          Probes,     \* keys looked up: <<idx, sub, flags>>
          AccDict,    \* the access dictionary: sequence of entry records (with field args for the harness)
          NodeIds, Lens, Bases,
          ValMode     \* "b": boundary values; "x": all 8-bit values, 36 16-bit values (boundary bytes squared), 21 32-bit values
VARIABLE dummy

Step(e, x) == [e |-> e, x |-> x]
EntLess(a, b) == DevLess(a.idx, a.sub, b.idx, b.sub)
MkLookupEntry(k) == [idx |-> k.idx, sub |-> k.sub, flags |-> k.flags, kind |-> "int", w |-> 1, data |-> <<k.sub>>]
DictOf(S) == SetToSortSeq({MkLookupEntry(k) : k \in S}, EntLess)
\* entry as the harness wants it: idx sub flags type args...
TypeCode(e) == IF e.kind = "int" THEN (IF e.w = 1 THEN 0 ELSE IF e.w = 2 THEN 1 ELSE 2)
               ELSE IF e.kind = "dom" THEN 3 ELSE IF e.kind = "str" THEN 4 ELSE 19
HArgs(e) == IF e.kind = "dom" THEN <<Len(e.data)>> \o (IF Len(e.data) <= 16 THEN e.data ELSE <<>>)
            ELSE e.data
HEntry(e) == <<e.idx, e.sub, e.flags, TypeCode(e)>> \o HArgs(e)
HDict(d) == [p \in 1..Len(d) |-> HEntry(d[p])]

\* ---------------- lookup --------------------------------------------------
LookupOK == \A S \in SUBSET U : LET d == DictOf(S) IN
              Sorted(d) /\ \A k \in Probes : FindOK(d, k[1], k[2], k[3])
ASSUME LookupOK
ProbeSeq == SetToSortSeq(Probes, LAMBDA a, b : a[1] < b[1] \/ (a[1] = b[1] /\ (a[2] < b[2] \/ (a[2] = b[2] /\ a[3] < b[3]))))
LookupBeh(S) ==
  LET d == DictOf(S) IN
  [c |-> [n |-> 1, d |-> HDict(d)],
   h |-> [i \in 1..Len(ProbeSeq) |-> LET k == ProbeSeq[i] IN
            Step(<<"find", k[1], k[2], k[3]>>, << <<"ret", Find(d, k[1], k[2], k[3]).pos>> >>)]]
ASSUME \A S \in SUBSET U : PrintT(<<"BEH", ToJson(LookupBeh(S))>>)

\* ---------------- typed and buffer access ---------------------------------
W(e) == e.w
BB == {0, 1, 127, 128, 254, 255}
ValsB(w) == IF w = 1 THEN {<<0>>, <<1>>, <<127>>, <<128>>, <<255>>, <<2>>}
            ELSE IF w = 2 THEN {<<0,0>>, <<1,0>>, <<255,0>>, <<0,1>>, <<255,127>>, <<0,128>>, <<255,255>>, <<126,0>>}
            ELSE {<<0,0,0,0>>, <<1,0,0,0>>, <<255,255,0,0>>, <<0,0,1,0>>, <<255,255,255,127>>, <<0,0,0,128>>, <<255,255,255,255>>, <<126,0,0,0>>, <<120,86,52,18>>}
Vals(w) == IF ValMode = "b" THEN ValsB(w)
           ELSE IF w = 1 THEN {<<v>> : v \in 0..255}
           ELSE IF w = 2 THEN {<<a, b>> : a \in BB, b \in BB}
           ELSE ValsB(4) \cup {<<0,0,0,1>>, <<0,1,0,0>>, <<255,0,0,0>>, <<0,255,0,0>>, <<0,0,255,0>>, <<0,0,0,255>>, <<255,255,255,0>>, <<0,255,255,255>>,
                                 <<254,255,255,255>>, <<128,0,0,0>>, <<0,128,0,0>>, <<0,0,128,0>>}
\* values relative to the entry itself: the value it reads as, that value -/+ the node id (for a node-id relative entry the first of
\* these is its raw storage: "store written value minus node id" must not be short-cut by comparing the raw value), and the raw storage
Special(e, n) == LET x == RdTyped(e, n, e.w).val IN {x, SubByte(x, n), AddByte(x, n), e.data}
RoundTrip == \A p \in 1..Len(AccDict), n \in NodeIds : LET e == AccDict[p] IN
               e.kind = "int" => \A v \in Vals(e.w) \cup Special(e, n) :
                 /\ RdTyped(WrTyped(e, n, e.w, v).e, n, e.w).val = v
                 /\ \A w2 \in {1,2,4} \ {e.w} : ~RdTyped(e, n, w2).ok /\ ~WrTyped(e, n, w2, Zeros(w2)).ok
ASSUME RoundTrip
OpW(w, r) == IF w = 1 THEN (IF r THEN "rd8" ELSE "wr8") ELSE IF w = 2 THEN (IF r THEN "rd16" ELSE "wr16") ELSE (IF r THEN "rd32" ELSE "wr32")
Chg(e0, e1) == IF e0.data = e1.data THEN <<>> ELSE << <<"chg", e1.idx, e1.sub>> \o e1.data >>
Pad(bs, len) == bs \o [i \in 1..(len - Len(bs)) |-> 204]
Pattern(base, len) == [i \in 1..len |-> (base + i - 1) % 256]
IntBeh(p, n, v) ==
  LET e == AccDict[p]
      w == e.w
      wr == WrTyped(e, n, w, v)
      others == SetToSortSeq({1,2,4} \ {w}, <)
  IN [c |-> [n |-> n, d |-> HDict(AccDict)],
      h |-> << Step(<<OpW(w, TRUE), e.idx, e.sub>>, << <<"ret">> \o RdTyped(e, n, w).val >>),
               Step(<<OpW(w, FALSE), e.idx, e.sub>> \o v, << <<"ok">> >> \o Chg(e, wr.e)),
               Step(<<OpW(w, TRUE), e.idx, e.sub>>, << <<"ret">> \o v >>),
               Step(<<OpW(others[1], TRUE), e.idx, e.sub>>, << <<"err", -1>> >>),
               Step(<<OpW(others[2], TRUE), e.idx, e.sub>>, << <<"err", -1>> >>),
               Step(<<OpW(others[1], FALSE), e.idx, e.sub>> \o Zeros(others[1]), << <<"err", -1>> >>),
               Step(<<OpW(others[2], FALSE), e.idx, e.sub>> \o Zeros(others[2]), << <<"err", -1>> >>),
               Step(<<"rdbuf", e.idx, e.sub, w>>, << <<"buf", 0>> \o v >>),
               Step(<<OpW(w, TRUE), e.idx, e.sub>>, << <<"ret">> \o v >>) >>]
\* two writes in a row: v, then v minus the node id (the raw representation of what was just stored)
IntBeh2(p, n, v) ==
  LET e == AccDict[p]
      w == e.w
      w1 == WrTyped(e, n, w, v)
      v2 == SubByte(v, n)
      w2 == WrTyped(w1.e, n, w, v2)
  IN [c |-> [n |-> n, d |-> HDict(AccDict)],
      h |-> << Step(<<OpW(w, FALSE), e.idx, e.sub>> \o v, << <<"ok">> >> \o Chg(e, w1.e)),
               Step(<<OpW(w, TRUE), e.idx, e.sub>>, << <<"ret">> \o v >>),
               Step(<<OpW(w, FALSE), e.idx, e.sub>> \o v2, << <<"ok">> >> \o Chg(w1.e, w2.e)),
               Step(<<OpW(w, TRUE), e.idx, e.sub>>, << <<"ret">> \o v2 >>),
               Step(<<OpW(w, FALSE), e.idx, e.sub>> \o v2, << <<"ok">> >>),
               Step(<<OpW(w, TRUE), e.idx, e.sub>>, << <<"ret">> \o v2 >>) >>]
ASSUME \A p \in 1..Len(AccDict), n \in NodeIds : AccDict[p].kind = "int" =>
          /\ \A v \in Vals(AccDict[p].w) \cup Special(AccDict[p], n) : PrintT(<<"BEH", ToJson(IntBeh(p, n, v))>>)
          /\ \A v \in ValsB(AccDict[p].w) : PrintT(<<"BEH", ToJson(IntBeh2(p, n, v))>>)

\* buffers: write len bytes of a pattern, read back with every length, twice
BufMoved == \A p \in 1..Len(AccDict), len \in Lens : LET e == AccDict[p] IN
              e.kind \in {"dom", "str"} => Len(RdBuf(e, 1, len).bytes) = Min(len, Len(e.data))
ASSUME BufMoved
BufBeh(p, len, base) ==
  LET e == AccDict[p]
      wr == WrBuf(e, 1, Pattern(base, len))
      e1 == wr.e
      rd(l) == Step(<<"rdbuf", e.idx, e.sub, l>>, << <<"buf", 0>> \o Pad(RdBuf(e1, 1, l).bytes, l) >>)
      lens == SetToSortSeq(Lens, <)
  IN [c |-> [n |-> 1, d |-> HDict(AccDict)],
      h |-> << Step(<<"rdbuf", e.idx, e.sub, len>>, << <<"buf", 0>> \o Pad(RdBuf(e, 1, len).bytes, len) >>),
               Step(<<"wrbuf", e.idx, e.sub, len, base>>, IF wr.ok THEN << <<"ok">> >> \o Chg(e, e1) ELSE << <<"err", -1>> >>) >>
             \o [i \in 1..Len(lens) |-> rd(lens[i])] \o << rd(len), rd(len) >>]
ASSUME \A p \in 1..Len(AccDict), len \in Lens, base \in Bases :
          AccDict[p].kind \in {"dom", "str"} => PrintT(<<"BEH", ToJson(BufBeh(p, len, base))>>)

\* continued access: write l1 bytes (from the start), continue with l2 bytes, read everything back; then read l1 bytes (from the
\* start), continue reading l2 bytes and then "everything that is left": the pieces are consecutive and never leave the object
ContOK == \A p \in 1..Len(AccDict), l1 \in Lens, l2 \in Lens : LET e == AccDict[p] IN
            e.kind = "dom" => LET a == DomWrCont(e, 0, Pattern(1, l1))  b == DomWrCont(a.e, a.off, Pattern(101, l2)) IN
                              /\ Len(b.e.data) = Len(e.data) /\ b.off <= Len(e.data)
                              /\ b.e.data = Take(Pattern(1, l1) \o Pattern(101, l2), Len(e.data)) \o Drop(e.data, l1 + l2)
ASSUME ContOK
ContBeh(p, l1, l2) ==
  LET e == AccDict[p]
      sz == Len(e.data)
      a == DomWrCont(e, 0, Pattern(1, l1))
      b == DomWrCont(a.e, a.off, Pattern(101, l2))
      r1 == DomRdCont(b.e, 0, l1)
      r2 == DomRdCont(b.e, r1.off, l2)
      r3 == DomRdCont(b.e, r2.off, sz + 3)
  IN [c |-> [n |-> 1, d |-> HDict(AccDict)],
      h |-> << Step(<<"wrbuf", e.idx, e.sub, l1, 1>>, << <<"ok">> >> \o Chg(e, a.e)),
               Step(<<"wrbufc", e.idx, e.sub, l2, 101>>, << <<"ok">> >> \o Chg(a.e, b.e)),
               Step(<<"rdbuf", e.idx, e.sub, sz + 2>>, << <<"buf", 0>> \o Pad(b.e.data, sz + 2) >>),
               Step(<<"rdbuf", e.idx, e.sub, l1>>, << <<"buf", 0>> \o Pad(r1.bytes, l1) >>),
               Step(<<"rdbufc", e.idx, e.sub, l2>>, << <<"buf", 0>> \o Pad(r2.bytes, l2) >>),
               Step(<<"rdbufc", e.idx, e.sub, sz + 3>>, << <<"buf", 0>> \o Pad(r3.bytes, sz + 3) >>) >>]
ASSUME \A p \in 1..Len(AccDict), l1 \in Lens, l2 \in Lens :
          (AccDict[p].kind = "dom" /\ l1 > 0 /\ l2 > 0 /\ l1 <= Len(AccDict[p].data) + 1) => PrintT(<<"BEH", ToJson(ContBeh(p, l1, l2))>>)

\* ---------------- initialisation walk -------------------------------------
\* every entry's type initialisation runs exactly once: dictionaries of k test
\* entries (k = 1..4) at the front, middle and end of the access dictionary
TestEntry(i) == [idx |-> i, sub |-> 0, flags |-> 3, kind |-> "test", w |-> 4, data |-> <<0,0,0,0>>, args |-> <<0,0,0,0>>]
\* an entry whose initialisation REPORTS AN ERROR (harness: stored first byte EEh): the others are still initialised, once each
FailEntry(i) == [TestEntry(i) EXCEPT !.data = <<238, 0, 0, 0>>, !.args = <<238, 0, 0, 0>>]
InitDicts == { <<FailEntry(4096), TestEntry(4097)>>, <<TestEntry(4096), FailEntry(4097), TestEntry(4098)>>,
               <<FailEntry(4096)>> \o AccDict \o <<TestEntry(65000)>>, <<TestEntry(4096)>> \o AccDict \o <<FailEntry(65000), FailEntry(65001), TestEntry(65002)>>,
               <<TestEntry(4096)>>, <<TestEntry(4096), TestEntry(4097)>>,
               <<TestEntry(4096)>> \o AccDict, <<TestEntry(4096)>> \o AccDict \o <<TestEntry(65000)>>,
               AccDict \o <<TestEntry(65000)>>, <<TestEntry(4096), TestEntry(4097)>> \o AccDict \o <<TestEntry(65000), TestEntry(65001)>> }
NTest(d) == Cardinality({p \in 1..Len(d) : d[p].kind = "test"})
InitBeh(d) == [c |-> [n |-> 1, d |-> HDict(d)],
               h |-> << Step(<<"initcnts">>, << <<"cnts">> \o [i \in 1..NTest(d) |-> 1] >>) >>]
ASSUME \A d \in InitDicts : PrintT(<<"BEH", ToJson(InitBeh(d))>>)

Init == dummy = 0
Next == UNCHANGED dummy
=============================================================================
