CONSTANTS NodeId = 5  Depth = 3  Walk = TRUE  WalkLen = 40
CONSTANT Tbl <- T5  Letters <- LE4  ProbeLetters <- PE
INIT Init
NEXT Next

CONSTRAINT EmitWalk
