------------------------------- MODULE CoNode -------------------------------
(***************************************************************************)
(* Node-level reference model: NMT state machine and the dispatch cascade  *)
(* of CONodeProcess (co_core.c, co_nmt.c), heartbeat producer and consumer *)
(* (co_hb_prod.c, co_hb_cons.c), plus the minimum of the other services    *)
(* needed to observe per-state service gating (C09).                       *)
(*                                                                         *)
(* Functional core over a node record n; every operator returns            *)
(*   [n |-> new node, out |-> observations in order]                       *)
(* observations are the harness items: <<"tx", id, dlc, b...>>,            *)
(* <<"cb", name, args...>>, <<"ret", v>>.                                  *)
(*                                                                         *)
(* Timers are abstract countdowns (ticks until the action is due; 0 = not  *)
(* armed): the timer manager itself is verified by C07/C08, so a service   *)
(* may assume "an action created with start s and cycle c runs s ticks     *)
(* later and then every c ticks" (assume/guarantee, see DESIGN 4.2).       *)
(* Timer frequency 1 kHz: 1 ms = 1 tick.                                   *)
(***************************************************************************)
EXTENDS CoBytes, FiniteSets, TLC
CONSTANTS NodeId

\* NMT modes (CO_MODE)
INVALID == 0   INIT == 1   PREOP == 2   OPER == 3   STOP == 4
ModeCode(m) == CASE m = PREOP -> 127 [] m = OPER -> 5 [] m = STOP -> 4 [] m = INIT -> 0 [] OTHER -> 255
DecodeMode(c) == CASE c = 127 -> PREOP [] c = 5 -> OPER [] c = 4 -> STOP [] c = 0 -> INIT [] c = 255 -> INVALID [] OTHER -> INVALID
\* services permitted per mode (CONmtModeObj)
NmtOK(m)  == m \in {PREOP, OPER, STOP}
SdoOK(m)  == m \in {PREOP, OPER}
SyncOK(m) == m \in {PREOP, OPER}
EmcyOK(m) == m \in {PREOP, OPER}
PdoOK(m)  == m = OPER
AnyOK(m)  == m # INVALID                 \* mask non-zero: unclaimed frames reach the application

\* ---- node record ---------------------------------------------------------------
\* mode           NMT mode
\* hbT, hbRem     1017h (ms) and ticks until the next heartbeat (0 = producer off)
\* hc             heartbeat consumer entries (1016h:1..k), each
\*                [node, time, on, rem, st, ev]: on = monitoring active (entry is a chain
\*                member), rem = ticks until the next heartbeat event (0 = not armed: monitoring
\*                starts with the first heartbeat), st = last state, ev = event counter
\* app            application timers (C10: "other timer activity"): Seq of [rem, cyc]
\* v8, r8         application bytes 2100h:0 (read by TPDO 0, written through SDO) and 2101h:0
\*                (written by RPDO 0) -- C09 gating probes
\* err1           error 1 active (C09 gating probe for EMCY)
Node0(hbT, hc) ==
  [mode |-> INIT, hbT |-> hbT, hbRem |-> hbT,
   hc |-> [k \in 1..Len(hc) |-> [node |-> hc[k][1], time |-> hc[k][2], on |-> hc[k][2] > 0, rem |-> 0, st |-> INVALID, ev |-> 0]],
   v8 |-> 0, r8 |-> 0, err1 |-> FALSE, app |-> <<>>]

R(n, out) == [n |-> n, out |-> out]
Cb2(name, a) == <<"cb", name, a>>
Cb3(name, a, b) == <<"cb", name, a, b>>

\* ---- NMT -------------------------------------------------------------------------
SetMode(n, m) == R([n EXCEPT !.mode = m], IF n.mode # m THEN <<Cb2("modechg", m)>> ELSE <<>>)
BootFrame == <<"tx", 1792 + NodeId, 1, 0>>
Bootup(n) == IF n.mode = INIT
             THEN LET a == SetMode(n, PREOP) IN R(a.n, a.out \o <<BootFrame>>)
             ELSE R(n, <<>>)
\* CONmtReset (both types): communication services as after a fresh start with the
\* current dictionary values -- heartbeat producer re-armed from 1017h, consumers
\* active as configured and waiting for their first heartbeat, emergencies cleared
ResetCom(n) ==
  LET wasInit == n.mode = INIT
      a == SetMode(n, INIT)
      n1 == [a.n EXCEPT !.hbRem = n.hbT,
                        !.hc = [k \in 1..Len(n.hc) |-> [n.hc[k] EXCEPT !.on = n.hc[k].time > 0, !.rem = 0, !.st = INVALID, !.ev = 0]],
                        !.err1 = FALSE]
      b == IF wasInit THEN R(n1, <<>>) ELSE Bootup(n1)
  IN R(b.n, a.out \o b.out)
NmtCommand(n, cs, target) ==
  IF target # NodeId /\ target # 0 THEN R(n, <<>>)
  ELSE CASE cs = 1   -> SetMode(n, OPER)
         [] cs = 2   -> SetMode(n, STOP)
         [] cs = 128 -> SetMode(n, PREOP)
         [] cs = 129 -> LET a == ResetCom(n) IN R(a.n, a.out \o <<Cb2("resetreq", 1)>>)
         [] cs = 130 -> LET a == ResetCom(n) IN R(a.n, a.out \o <<Cb2("resetreq", 2)>>)
         [] OTHER    -> R(n, <<>>)

\* ---- heartbeat consumer -------------------------------------------------------------
HcFind(n, node) == IF \E k \in 1..Len(n.hc) : n.hc[k].on /\ n.hc[k].node = node
                   THEN CHOOSE k \in 1..Len(n.hc) : n.hc[k].on /\ n.hc[k].node = node ELSE 0
HcRx(n, node, code) ==     \* heartbeat of `node' with state byte `code'; [n, out, claimed]
  LET k == HcFind(n, node) IN
  IF k = 0 THEN [n |-> n, out |-> <<>>, claimed |-> FALSE]
  ELSE LET st == DecodeMode(code) IN
       [n |-> [n EXCEPT !.hc[k].rem = n.hc[k].time, !.hc[k].st = st],
        out |-> IF n.hc[k].st # st THEN <<Cb3("hbchange", node, st)>> ELSE <<>>, claimed |-> TRUE]
\* one tick of entry k: [entry, out]
HcTick(e) == IF e.rem = 0 THEN [e |-> e, out |-> <<>>]
             ELSE IF e.rem > 1 THEN [e |-> [e EXCEPT !.rem = @ - 1], out |-> <<>>]
             ELSE [e |-> [e EXCEPT !.rem = e.time, !.ev = IF @ < 255 THEN @ + 1 ELSE 255], out |-> <<Cb2("hbevent", e.node)>>]
GetHbEvents(n, node) == LET k == HcFind(n, node) IN
                        IF k = 0 THEN R(n, << <<"ret", -1>> >>) ELSE R([n EXCEPT !.hc[k].ev = 0], << <<"ret", n.hc[k].ev>> >>)
LastHbState(n, node) == LET k == HcFind(n, node) IN R(n, << <<"ret", IF k = 0 THEN INVALID ELSE n.hc[k].st>> >>)
\* write of (node, time) to entry k (1016h:k); [n, code]   code <<>> = accepted
A_INCOMPAT == <<67, 0, 4, 6>>
HcWrite(n, k, node, time) ==
  LET other == \E j \in 1..Len(n.hc) : j # k /\ n.hc[j].on /\ n.hc[j].node = node
      self == n.hc[k].on /\ n.hc[k].node = node
      off == [node |-> node, time |-> time, on |-> FALSE, rem |-> 0, st |-> INVALID, ev |-> 0]
  IN IF (other \/ self) /\ time > 0 THEN [n |-> n, code |-> A_INCOMPAT]          \* node already monitored: refused, nothing changes
     ELSE [n |-> [n EXCEPT !.hc[k] = [off EXCEPT !.on = time > 0]], code |-> <<>>]   \* entry k only; its old monitoring is cancelled
HcValue(e) == <<e.time % 256, e.time \div 256, e.node, 0>>

\* ---- heartbeat producer ---------------------------------------------------------------
HbFrame(n) == <<"tx", 1792 + NodeId, 1, ModeCode(n.mode)>>
HbTick(n) == IF n.hbRem = 0 THEN R(n, <<>>)
             ELSE IF n.hbRem > 1 THEN R([n EXCEPT !.hbRem = @ - 1], <<>>)
             ELSE R([n EXCEPT !.hbRem = n.hbT], IF NmtOK(n.mode) THEN <<HbFrame(n)>> ELSE <<>>)
HbWrite(n, time) == [n EXCEPT !.hbT = time, !.hbRem = time]     \* restarts the period from the write; 0 stops

\* ---- application timers (they survive every NMT reset) ----------------------------------
\* app: Seq of [h, rem, cyc]   h = handle, rem = ticks until due (0 = dead), cyc = period (0 = one-shot)
AppCreate(n, h, start, cyc) == [n EXCEPT !.app = Append(SelectSeq(@, LAMBDA t : t.h # h), [h |-> h, rem |-> IF start = 0 THEN cyc ELSE start, cyc |-> cyc])]
AppTick(app) == [ts |-> SelectSeq([k \in 1..Len(app) |-> IF app[k].rem > 1 THEN [app[k] EXCEPT !.rem = @ - 1] ELSE [app[k] EXCEPT !.rem = app[k].cyc]], LAMBDA t : t.rem > 0),
                 out |-> LET due == SelectSeq(app, LAMBDA t : t.rem = 1) IN [k \in 1..Len(due) |-> <<"fire", due[k].h>>]]
\* timer pool occupancy: armed actions of the stack + application timers
Armed(n) == (IF n.hbRem > 0 /\ n.mode # INVALID THEN 1 ELSE 0) + Cardinality({k \in 1..Len(n.hc) : n.hc[k].rem > 0}) + Len(n.app)

\* ---- tick: every armed action counts down; those due run in this processing step -------
RECURSIVE HcTicks(_, _, _)
HcTicks(hc, k, acc) == IF k > Len(hc) THEN acc
                       ELSE LET t == HcTick(hc[k]) IN HcTicks(hc, k + 1, [hc |-> Append(acc.hc, t.e), out |-> acc.out \o t.out])
Tick(n) ==
  IF n.mode = INVALID THEN R(n, <<>>)               \* CONodeStop cleared the stack timers
  ELSE LET a == HbTick(n)
           b == HcTicks(a.n.hc, 1, [hc |-> <<>>, out |-> <<>>])
           c == AppTick(n.app)
       IN R([a.n EXCEPT !.hc = b.hc, !.app = c.ts], a.out \o b.out \o c.out)

\* ---- minimal SDO server: expedited access to the configuration objects ---------------------
SdoTx == 1408 + NodeId
SdoRx == 1536 + NodeId
SdoOkWr(idx, sub) == <<"tx", SdoTx, 8, 96, idx % 256, idx \div 256, sub, -1, -1, -1, -1>>
SdoAbort(idx, sub, code) == <<"tx", SdoTx, 8, 128, idx % 256, idx \div 256, sub>> \o code
SdoRdResp(idx, sub, bytes) == <<"tx", SdoTx, 8, 67 + 4 * (4 - Len(bytes)), idx % 256, idx \div 256, sub>> \o bytes \o [i \in 1..(4 - Len(bytes)) |-> -1]
\* write request frame data for `bytes' (1..4) to idx:sub
SdoWrFrame(idx, sub, bytes) == <<35 + 4 * (4 - Len(bytes)), idx % 256, idx \div 256, sub>> \o bytes \o [i \in 1..(4 - Len(bytes)) |-> 0]
SdoRdFrame(idx, sub) == <<64, idx % 256, idx \div 256, sub, 0, 0, 0, 0>>
\* objects this module knows: 1017h:0 (u16), 1016h:k (u32), 2100h:0 (u8 application byte)
SdoWrite(n, idx, sub, bytes) ==
  IF idx = 4119 /\ sub = 0 /\ Len(bytes) = 2 THEN R(HbWrite(n, bytes[1] + 256 * bytes[2]), <<SdoOkWr(idx, sub)>>)
  ELSE IF idx = 4118 /\ sub \in 1..Len(n.hc) /\ Len(bytes) = 4
       THEN LET w == HcWrite(n, sub, bytes[3], bytes[1] + 256 * bytes[2]) IN
            R(w.n, IF w.code = <<>> THEN <<SdoOkWr(idx, sub)>> ELSE <<SdoAbort(idx, sub, w.code)>>)
  ELSE IF idx = 8448 /\ sub = 0 /\ Len(bytes) = 1 THEN R([n EXCEPT !.v8 = bytes[1]], <<SdoOkWr(idx, sub)>>)
  ELSE R(n, <<SdoAbort(idx, sub, <<-1, -1, -1, -1>>)>>)
SdoRead(n, idx, sub) ==
  IF idx = 4119 /\ sub = 0 THEN R(n, <<SdoRdResp(idx, sub, <<n.hbT % 256, n.hbT \div 256>>)>>)
  ELSE IF idx = 4118 /\ sub \in 1..Len(n.hc) THEN R(n, <<SdoRdResp(idx, sub, HcValue(n.hc[sub]))>>)
  ELSE IF idx = 8448 /\ sub = 0 THEN R(n, <<SdoRdResp(idx, sub, <<n.v8>>)>>)
  ELSE IF idx = 8449 /\ sub = 0 THEN R(n, <<SdoRdResp(idx, sub, <<n.r8>>)>>)
  ELSE IF idx = 4096 /\ sub = 0 THEN R(n, <<SdoRdResp(idx, sub, <<0, 0, 0, 0>>)>>)
  ELSE R(n, <<SdoAbort(idx, sub, <<-1, -1, -1, -1>>)>>)
SdoReq(n, f) ==      \* f = 8 data bytes of an expedited request
  LET idx == f[2] + 256 * f[3]  sub == f[4] IN
  IF f[1] = 64 THEN SdoRead(n, idx, sub)
  ELSE LET k == 4 - ((f[1] - 35) \div 4) IN SdoWrite(n, idx, sub, SubSeq(f, 5, 4 + k))

\* ---- CONodeProcess: the dispatch cascade ---------------------------------------------------
\* frame = <<id, dlc, b1..b8>>.  The gating probes of the other services are kept minimal here:
\*   LSS    7E5h is always consumed by the LSS slave (only frames that it answers with silence
\*          in waiting state are sent in this model)
\*   RPDO 0 identifier 200h+NodeId, asynchronous, maps 2100h:0 (one byte)
\*   SYNC   identifier 80h, consumed without visible effect
CanRx(id) == <<"cb", "canrx", id>>
Rx(n, id, dlc, f) ==
  IF n.mode = INVALID /\ id # 2021 THEN R(n, <<>>)
  ELSE IF id = 2021 THEN R(n, <<>>)                                         \* LSS: never passed on
  ELSE IF SdoOK(n.mode) /\ id = SdoRx THEN SdoReq(n, f)
  ELSE IF NmtOK(n.mode) /\ id = 0 THEN NmtCommand(n, f[1], f[2])
  ELSE LET h == IF NmtOK(n.mode) /\ id >= 1792 /\ id <= 1919 THEN HcRx(n, id - 1792, f[1])
                ELSE [n |-> n, out |-> <<>>, claimed |-> FALSE] IN
       IF h.claimed THEN R(h.n, h.out)
       ELSE IF PdoOK(n.mode) /\ id = 512 + NodeId
            THEN R([n EXCEPT !.r8 = f[1]], <<Cb2("pdorx", id)>>)
       ELSE IF SyncOK(n.mode) /\ id = 128 THEN R(n, <<>>)
       ELSE R(n, <<CanRx(id)>>)

\* ---- application calls ------------------------------------------------------------------------
ApiSetMode(n, m) == SetMode(n, m)
\* emergency gating probe: error 1 with code 1000h, register bit 0; frame only when permitted
EmcySet1(n) == IF n.err1 THEN R(n, <<>>)
               ELSE R([n EXCEPT !.err1 = TRUE], IF EmcyOK(n.mode) THEN << <<"tx", 128 + NodeId, 8, 0, 16, 1, 0, 0, 0, 0, 0>> >> ELSE <<>>)
EmcyClr1(n) == IF ~n.err1 THEN R(n, <<>>)
               ELSE R([n EXCEPT !.err1 = FALSE], IF EmcyOK(n.mode) THEN << <<"tx", 128 + NodeId, 8, 0, 0, 0, 0, 0, 0, 0, 0>> >> ELSE <<>>)
\* TPDO 0: event driven, maps 2100h:0, no timers; explicit trigger
TpdoTrig0(n) == R(n, IF PdoOK(n.mode) THEN << <<"cb", "pdotx", 384 + NodeId>>, <<"tx", 384 + NodeId, 1, n.v8>> >> ELSE <<>>)
=============================================================================
