CONSTANTS NodeId = 5  Depth = 1  Walk = FALSE  WalkLen = 0
CONSTANT Tbl <- T32  Letters <- LEW  ProbeLetters <- PEW
INIT Init
NEXT Next
VIEW View
CONSTRAINT EmitEdge
