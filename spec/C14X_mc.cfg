CONSTANTS NodeId = 5  NT = 1  NR = 1  Walk = FALSE  WalkLen = 0  PoolN = 16  CfgName = "C14X"
CONSTANT Objs <- MCObjs  ObjOrder <- MCOrder  V0 <- MCV0  TC0 <- TC14X  RC0 <- RC14  Sync0 <- S12  Letters <- L14X  ProbeLetters <- P14X  Probe2Letters <- PNone
INIT Init
NEXT Next
VIEW ViewM
INVARIANT InvPdo
