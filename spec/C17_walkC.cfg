CONSTANTS NodeId = 5  Walk = TRUE  WalkLen = 35  CfgName = "C"
CONSTANT Groups <- GC  Dflt <- DB  Letters <- LB  ProbeLetters <- PP
INIT Init
NEXT Next

CONSTRAINT EmitWalk
