CONSTANTS NodeId = 5  NT = 1  NR = 1  Walk = FALSE  WalkLen = 0  PoolN = 16  CfgName = "C12R"
CONSTANT Objs <- MCObjs  ObjOrder <- MCOrder  V0 <- MCV0  TC0 <- TC12R  RC0 <- RC12  Sync0 <- S12  Letters <- L12R  ProbeLetters <- P12R  Probe2Letters <- PNone
INIT Init
NEXT Next
VIEW ViewM
INVARIANT InvPdo
CONSTRAINT BoundP
