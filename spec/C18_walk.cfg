CONSTANTS NodeId0 = 5  Walk = TRUE  WalkLen = 40
CONSTANT Ident <- ID  Letters <- LFull  ProbeLetters <- PL
INIT Init
NEXT Next

CONSTRAINT EmitWalk
