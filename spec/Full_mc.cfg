CONSTANTS NodeId = 5  PoolN = 16  WalkLen = 0  HbInit = 3  NT = 2  NR = 2  Depth = 1  SrvNode = 9  CfgName = "mini"
CONSTANT RandLetter <- FRand  NRand = 0  HcInit <- FHc  Objs <- FObjs  ObjOrder <- FOrder  V0 <- FV0  TC0 <- FTC  RC0 <- FRC  Sync0 <- FSync  Tbl <- FTbl  Groups <- MiniGroups  ProbeLetters <- FProbe
INIT Init
NEXT Next
VIEW ViewF
INVARIANT InvFull
