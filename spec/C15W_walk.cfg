CONSTANTS NodeId = 5  Depth = 1  Walk = TRUE  WalkLen = 35
CONSTANT Tbl <- T32  Letters <- LEW  ProbeLetters <- PEW
INIT Init
NEXT Next

CONSTRAINT EmitWalk
