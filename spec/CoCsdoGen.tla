------------------------------ MODULE CoCsdoGen ------------------------------
EXTENDS CoCsdo, TLC, Json, SequencesExt
CONSTANTS Letters, ProbeLetters, Walk, WalkLen, PoolN, NodeId, SrvNode, ScenOn
VARIABLES c, hist, prev, gh
vars == <<c, hist, prev, gh>>
StepRec(ev, x) == [e |-> ev, x |-> x]
RxEv(f) == <<"rx", RxId, 8>> \o f
Flip(f) == <<IF (f[1] \div 16) % 2 = 1 THEN f[1] - 16 ELSE f[1] + 16>> \o SubSeq(f, 2, 8)
SrvFrame(cc, kind) ==
  CASE kind = "ok" -> ServerOk(cc)
    [] kind = "abort" -> <<128>> \o Mx \o <<0, 0, 2, 6>>
    [] kind = "abortx" -> <<128, 1, 2, 3, 0, 0, 2, 6>>
    [] kind = "toggle" -> Flip(ServerOk(cc))
    [] kind = "cmd" -> <<224, 0, 0, 0, 0, 0, 0, 0>>
    [] kind = "junk" -> <<4, 1, 2, 3, 4, 5, 6, 7>>
    [] kind = "size" -> <<65>> \o Mx \o LE(cc.size + 1, 3) \o <<0>>
    [] kind = "mux" -> <<ServerOk(cc)[1], 9, 9, 9>> \o SubSeq(ServerOk(cc), 5, 8)
Apply(cc, l) ==
  CASE l[1] = "up" -> LET r == ReqUpload(cc, l[2], l[3]) IN [ev |-> <<"csdo_up", 0, Idx, Sub, l[2], l[3]>>, c |-> r.c, x |-> r.out]
    [] l[1] = "down" -> LET r == ReqDownload(cc, l[2], l[3], l[4]) IN [ev |-> <<"csdo_down", 0, Idx, Sub, l[2], l[3], 0, l[4]>>, c |-> r.c, x |-> r.out]
    [] l[1] = "srv" -> LET f == SrvFrame(cc, l[2]) IN
                       IF ~cc.busy THEN [ev |-> RxEv(f), c |-> cc, x |-> << <<"cb", "canrx", RxId>> >>]
                       ELSE LET r == Resp(cc, f) IN [ev |-> RxEv(f), c |-> r.c, x |-> IF r.open THEN << <<"stop">> >> ELSE r.out]
    [] l[1] = "reset" -> [ev |-> <<"rx", 0, 2, l[2], NodeId, 0, 0, 0, 0, 0, 0>>, c |-> C0, x |-> << <<"free">> >>]     \* SDO clients idle after a reset, nothing armed
    [] l[1] = "tick" -> LET r == Tick(cc) IN [ev |-> <<"tick">>, c |-> r.c, x |-> r.out]
    [] l[1] = "ubuf" -> [ev |-> <<"ubuf", 0>>, c |-> cc, x |-> IF cc.buf = <<>> THEN << <<"free">> >> ELSE << <<"ubuf", 0>> \o cc.buf >>]
    [] l[1] = "pool" -> [ev |-> <<"pool">>, c |-> cc, x |-> << <<"acts", PoolN - (IF cc.rem > 0 THEN 1 ELSE 0)>> >>]
    [] l[1] = "state" -> [ev |-> <<"csdo_state", 0>>, c |-> cc, x |-> << <<"ret", IF cc.busy THEN 2 ELSE 1>> >>]
View == c
Rec(step) == /\ hist' = (IF Walk THEN Append(hist, step) ELSE <<step>>)
             /\ prev' = View
\* C19 on the reference: the completion callback exactly once per accepted request; nothing armed when idle
Cbs(x) == Cardinality({k \in 1..Len(x) : x[k][1] = "cb" /\ x[k][2] = "csdo"})
StepOk(c0, l, a) ==
  /\ Cbs(a.x) <= 1
  /\ (l[1] # "reset" => ((Cbs(a.x) = 1) <=> (c0.busy /\ ~a.c.busy)))
  /\ (~a.c.busy => a.c.rem = 0)
  /\ (l[1] \in {"up", "down"} /\ c0.busy => a.c = c0)
  /\ (l[1] = "tick" /\ c0.rem = 1 => \E k \in 1..Len(a.x) : a.x[k] = Tx(<<128>> \o Mx \o TIMEOUT))
Do(l) == LET a == Apply(c, l) IN
         /\ c' = a.c /\ gh' = StepOk(c, l, a) /\ Rec(StepRec(a.ev, a.x))
Init == c = C0 /\ hist = <<>> /\ prev = <<>> /\ gh = TRUE
Next == \E l \in Letters : Do(l)
InvC19 == gh
RECURSIVE RunLetters(_, _, _)
RunLetters(cc, ls, acc) ==
  IF ls = <<>> THEN [c |-> cc, steps |-> acc]
  ELSE LET a == Apply(cc, Head(ls)) IN RunLetters(a.c, Tail(ls), Append(acc, StepRec(a.ev, a.x)))
Probe == RunLetters(c, ProbeLetters, <<>>).steps
Cfg == [n |-> NodeId, srv |-> SrvNode]
EmitEdge == hist = <<>> \/ PrintT(<<"EDGE", ToJson([c |-> Cfg, s |-> prev, e |-> hist[Len(hist)], d |-> View, p |-> Probe])>>)
EmitWalk == Len(hist) < WalkLen \/ (PrintT(<<"WALK", ToJson([c |-> Cfg, h |-> hist, p |-> Probe])>>) /\ FALSE)
\* complete conforming transfers of large sizes (scenario enumeration), each followed by the probe
RECURSIVE Complete(_, _, _)
Complete(cc, acc, n) == IF ~cc.busy \/ n = 0 THEN [c |-> cc, steps |-> acc]
                        ELSE LET a == Apply(cc, <<"srv", "ok">>) IN Complete(a.c, Append(acc, StepRec(a.ev, a.x)), n - 1)
Scenario(l) == LET a == Apply(C0, l)
                   b == Complete(a.c, <<StepRec(a.ev, a.x)>>, 700)
                   u == Apply(b.c, <<"ubuf">>)
               IN [c |-> Cfg, h |-> Append(b.steps, StepRec(u.ev, u.x)) \o RunLetters(b.c, ProbeLetters, <<>>).steps]
\* VIEW of the model-checking configurations: TLC evaluates invariants only on states it has not seen before, and "seen" is
\* decided on the VIEW; a step verdict kept in a ghost variable must therefore be part of it, or a violating edge INTO A KNOWN
\* STATE would be discarded unexamined (the generation configurations keep the plain View: the verdict is not behaviour)
ViewM == <<View, gh>>
=============================================================================
