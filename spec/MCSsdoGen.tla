------------------------------ MODULE MCSsdoGen ------------------------------
EXTENDS CoSsdoGen
O(i, sb, r, w, k, dt, ab) == [idx |-> i, sub |-> sb, r |-> r, w |-> w, kind |-> k, data |-> dt, abort |-> ab]
DomPat(n) == [i \in 1..n |-> ((i - 1) * 13 + 5) % 256]
MCDict == << O(8192,0,TRUE,TRUE,"int",<<1,2,3,4>>,<<>>),  O(8193,0,TRUE,FALSE,"int",<<9,8,7,6>>,<<>>), O(8194,0,FALSE,TRUE,"int",<<0,0,0,0>>,<<>>),
             O(8208,1,TRUE,TRUE,"dom",DomPat(9),<<>>),     O(8208,2,TRUE,TRUE,"dom",DomPat(30),<<>>),
             O(8224,1,TRUE,FALSE,"str",<<97,98,99>>,<<>>), O(8224,2,TRUE,FALSE,"str",<<65,66,67,68,69,70,71,72,73,74>>,<<>>),
             O(8240,0,TRUE,TRUE,"app",<<5,6,7,8>>,<<49,0,9,6>>), O(8241,0,TRUE,TRUE,"int",<<17>>,<<>>) >>
\* 1 u32 rw, 2 u32 ro, 3 u32 wo, 4 dom9, 5 dom30, 6 str3, 7 str10, 8 app, 9 u8 | 10 missing sub, 11 missing index, 12 index below all, 13 neighbour sub
MCMux == [p \in 1..9 |-> <<MCDict[p].idx, MCDict[p].sub>>] \o << <<8192, 1>>, <<12288, 0>>, <<4095, 0>>, <<8208, 3>> >>
AllM == 1..13
LettersFull ==
     {<<"expdl", m, 4, TRUE>> : m \in AllM} \cup {<<"expdl", 1, 1, TRUE>>, <<"expdl", 9, 1, TRUE>>, <<"expdl", 9, 2, TRUE>>, <<"expdl", 1, 4, FALSE>>, <<"expdl", 4, 4, FALSE>>, <<"expdl", 9, 4, FALSE>>}
\cup {<<"expul", m>> : m \in AllM}
\cup {<<"segdl", m, -1>> : m \in {1, 2, 4, 5, 8, 10, 11}} \cup {<<"segdl", 4, 9>>, <<"segdl", 4, 10>>, <<"segdl", 4, 5>>, <<"segdl", 1, 4>>, <<"segdl", 1, 3>>, <<"segdl", 1, 5>>, <<"segdl", 5, 30>>}
\cup {<<"dseg", t, 7, FALSE>> : t \in {0, 1}} \cup {<<"dseg", t, k, TRUE>> : t \in {0, 1}, k \in {2, 4, 7}}
\cup {<<"useg", t>> : t \in {0, 1}}
\cup {<<"blkdl", m, -1>> : m \in {1, 2, 4, 5, 11}} \cup {<<"blkdl", 5, 30>>, <<"blkdl", 5, 31>>, <<"blkdl", 4, 9>>, <<"blkdl", 5, 23>>}
\cup {<<"bseg", q, c>> : q \in 1..3, c \in {TRUE, FALSE}}
\cup {<<"bend", n>> : n \in {0, 5, 7}}
\cup {<<"blkul", m, 3>> : m \in {1, 3, 4, 5, 7, 10, 11}} \cup {<<"blkul", 5, 1>>, <<"blkul", 5, 2>>, <<"blkul", 5, 0>>, <<"blkul", 5, 127>>, <<"blkul", 5, 128>>}
\cup {<<"bstart">>, <<"bfin">>, <<"abort">>}
\cup {<<"back", a, b>> : a \in 0..4, b \in {1, 3}} \cup {<<"back", 1, 0>>, <<"back", 3, 200>>}
\cup {<<"raw", c>> : c \in {224, 65, 144, 164, 195}}
LettersQuick ==
     {<<"expdl", m, 4, TRUE>> : m \in {1, 2, 4, 8, 10, 11}} \cup {<<"expdl", 1, 1, TRUE>>, <<"expdl", 4, 4, FALSE>>}
\cup {<<"expul", m>> : m \in {1, 3, 4, 6, 11}}
\cup {<<"segdl", 4, -1>>, <<"segdl", 4, 9>>, <<"segdl", 1, 5>>, <<"segdl", 11, -1>>}
\cup {<<"dseg", t, 7, FALSE>> : t \in {0, 1}} \cup {<<"dseg", t, 2, TRUE>> : t \in {0, 1}}
\cup {<<"useg", t>> : t \in {0, 1}}
\cup {<<"blkdl", 5, 30>>, <<"blkdl", 4, -1>>, <<"blkdl", 2, -1>>}
\cup {<<"bseg", q, c>> : q \in 1..3, c \in {TRUE, FALSE}}
\cup {<<"bend", 5>>, <<"bend", 0>>}
\cup {<<"blkul", 5, 3>>, <<"blkul", 4, 2>>, <<"blkul", 5, 0>>, <<"blkul", 11, 3>>}
\cup {<<"bstart">>, <<"bfin">>, <<"abort">>}
\cup {<<"back", a, 3>> : a \in 0..4} \cup {<<"back", 1, 1>>}
\cup {<<"raw", 224>>}
==============================================================================
