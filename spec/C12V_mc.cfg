CONSTANTS NodeId = 5  NT = 1  NR = 1  Walk = FALSE  WalkLen = 0  PoolN = 16  CfgName = "C12V"
CONSTANT Objs <- MCObjs  ObjOrder <- MCOrder  V0 <- MCV0  TC0 <- TC12V  RC0 <- RC12V  Sync0 <- S12  Letters <- L12V  ProbeLetters <- P12V  Probe2Letters <- PNone
INIT Init
NEXT Next
VIEW ViewM
INVARIANT InvPdo
