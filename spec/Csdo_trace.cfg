CONSTANTS Idx = 8448  Sub = 0  TxId = 1545  RxId = 1417  PoolN = 16
SPECIFICATION TSpec
INVARIANT InvIdle Report
POSTCONDITION TraceAccepted
CHECK_DEADLOCK FALSE
