CONSTANTS NodeId = 5  NT = 1  NR = 1  Walk = FALSE  WalkLen = 0  PoolN = 16  CfgName = "C12S"
CONSTANT Objs <- MCObjs  ObjOrder <- MCOrder  V0 <- MCV0  TC0 <- TC12S  RC0 <- RC12S  Sync0 <- S12  Letters <- L12S  ProbeLetters <- P12S  Probe2Letters <- PNone
INIT Init
NEXT Next
VIEW View
CONSTRAINT EmitEdge
