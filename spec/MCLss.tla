-------------------------------- MODULE MCLss --------------------------------
EXTENDS CoLssGen
ID == <<17, 34, 51, 68>>
A(v) == <<v, 0, 0, 0>>
Near(k) == {A(ID[k] - 1), A(ID[k]), A(ID[k] + 1)}
L(cs, arg) == <<"lss", <<cs>> \o arg>>
LFull == {L(4, <<0>>), L(4, <<1>>), L(4, <<2>>)}
   \cup {L(64, a) : a \in Near(1) \cup {<<17, 0, 0, 1>>}} \cup {L(65, a) : a \in Near(2)} \cup {L(66, a) : a \in Near(3)} \cup {L(67, a) : a \in Near(4) \cup {<<68, 1, 0, 0>>}}
   \cup {L(19, <<t, i>>) : t \in {0, 1}, i \in {0, 4, 5, 8, 9, 10}} \cup {L(17, <<v>>) : v \in {0, 1, 9, 127, 128, 255}} \cup {L(23, <<>>)}
   \cup {L(cs, <<>>) : cs \in 90..94}
   \cup {L(70, a) : a \in Near(1)} \cup {L(71, a) : a \in Near(2)} \cup {L(72, a) : a \in Near(3)} \cup {L(73, a) : a \in Near(3)} \cup {L(74, a) : a \in Near(4)} \cup {L(75, a) : a \in Near(4)}
   \cup {L(76, <<>>), L(0, <<>>), L(95, <<1, 2, 3>>)}
   \cup {<<"nmt", 130>>, <<"nmt", 129>>, <<"nmt", 1>>, <<"nmt", 2>>, <<"nmt", 128>>, <<"init">>, <<"bootup">>}
LQuick == {L(4, <<0>>), L(4, <<1>>)}
   \cup {L(64, A(17)), L(64, A(18)), L(65, A(34)), L(65, A(33)), L(66, A(51)), L(67, A(68)), L(67, A(69))}
   \cup {L(19, <<0, 4>>), L(19, <<0, 5>>), L(19, <<1, 0>>), L(17, <<9>>), L(17, <<128>>), L(17, <<255>>), L(23, <<>>), L(90, <<>>), L(94, <<>>)}
   \cup {L(70, A(17)), L(71, A(34)), L(72, A(51)), L(72, A(52)), L(73, A(51)), L(73, A(50)), L(74, A(68)), L(75, A(68)), L(75, A(67))}
   \cup {L(76, <<>>), L(95, <<1, 2, 3>>), <<"nmt", 130>>, <<"init">>, <<"bootup">>}
\* probe: finish a selective sequence from wherever it is, then inquire everything, store, reset, boot-up id
PL == << L(67, A(68)), L(75, A(68)), L(94, <<>>), L(4, <<1>>), L(90, <<>>), L(91, <<>>), L(92, <<>>), L(93, <<>>), L(94, <<>>), L(23, <<>>), L(76, <<>>), <<"sdoid", 5>>, <<"sdoid", 9>>, <<"nmt", 130>>, <<"sdoid", 5>>, <<"sdoid", 9>>, L(94, <<>>), L(4, <<1>>), L(94, <<>>) >>
\* C20 (LSS part): reset in every state (also in the middle of a selective / identify sequence), then the REST of both
\* sequences alone (a fresh slave ignores it), inquiries (silent while waiting), then a complete selective sequence
L20L == LQuick \cup {<<"nmt", 129>>}
PL20 == << <<"nmt", 130>>, L(66, A(51)), L(67, A(68)), L(94, <<>>), L(74, A(68)), L(75, A(68)), L(65, A(34)), L(66, A(51)), L(67, A(68)), L(94, <<>>),
           L(64, A(17)), L(65, A(34)), L(66, A(51)), L(67, A(68)), L(94, <<>>), <<"nmt", 129>>, L(94, <<>>), L(71, A(34)), L(72, A(51)), L(73, A(51)), L(74, A(68)), L(75, A(68)) >>
===============================================================================
