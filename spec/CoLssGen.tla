------------------------------ MODULE CoLssGen ------------------------------
EXTENDS CoLss, TLC, Json, SequencesExt
CONSTANTS Letters, ProbeLetters, Walk, WalkLen
VARIABLES l, nmt, hist, prev, gh
vars == <<l, nmt, hist, prev, gh>>
\* nmt: 2 pre-operational, 3 operational, 4 stopped (the LSS slave must not care)
StepRec(ev, x) == [e |-> ev, x |-> x]
Pad8(s) == s \o [i \in 1..(8 - Len(s)) |-> 0]
\* letters: <<"lss", <<bytes>>>>, <<"nmt", cs>>
Apply(ll, m, lt) ==
  IF lt[1] = "lss"
  THEN LET f == Pad8(lt[2])  r == Step(ll, f) IN
       [ev |-> <<"rx", 2021, 8>> \o f, l |-> r.l, nmt |-> m, x |-> r.out, reset |-> FALSE]
  \* the application holds the node in NMT INITIALISATION (CONmtSetMode) / ends it (CONmtBootup): LSS must work there as well -
  \* it is how an unconfigured node gets its node id
  ELSE IF lt[1] = "init"
       THEN [ev |-> <<"nmt_set", 1>>, l |-> ll, nmt |-> 1, reset |-> FALSE, x |-> <<>>]
  ELSE IF lt[1] = "bootup"
       THEN [ev |-> <<"nmt_bootup">>, l |-> ll, nmt |-> IF m = 1 THEN 2 ELSE m, reset |-> FALSE,
             x |-> IF m = 1 THEN << <<"tx", 1792 + (ll.node % 256), 1, 0>> >> ELSE <<>>]
  ELSE IF lt[1] = "nmt" /\ m = 1
       THEN [ev |-> <<"rx", 0, 2, lt[2], 0, 0, 0, 0, 0, 0, 0>>, l |-> ll, nmt |-> m, reset |-> FALSE, x |-> << <<"cb", "canrx", 0>> >>]      \* NMT commands are not served in INITIALISATION
  ELSE IF lt[1] = "sdoid" /\ m = 1
       THEN [ev |-> <<"rx", 1536 + lt[2], 8, 64, 0, 16, 0, 0, 0, 0, 0>>, l |-> ll, nmt |-> m, reset |-> FALSE, x |-> << <<"cb", "canrx", 1536 + lt[2]>> >>]
  ELSE IF lt[1] = "sdoid"
       \* an SDO read of 1000h:0 addressed to node id lt[2]: served iff that is the ACTIVE node id (every service follows the id that
       \* a reset communication activated); a frame for another id is not the node's
       THEN LET f == <<64, 0, 16, 0, 0, 0, 0, 0>> IN
            [ev |-> <<"rx", 1536 + lt[2], 8>> \o f, l |-> ll, nmt |-> m, reset |-> FALSE,
             x |-> IF m = 4 THEN << <<"free">> >>
                   ELSE IF lt[2] = ll.node THEN << <<"tx", 1408 + lt[2], 8, 67, 0, 16, 0, 0, 0, 0, 0>> >>
                   ELSE << <<"cb", "canrx", 1536 + lt[2]>> >>]
  ELSE IF lt[2] = 130 \/ lt[2] = 129
       THEN LET l1 == ResetCom(ll) IN
            [ev |-> <<"rx", 0, 2, lt[2], 0, 0, 0, 0, 0, 0, 0>>, l |-> l1, nmt |-> 2, reset |-> TRUE,
             x |-> << <<"cb", "lssload">>, <<"tx", 1792 + (l1.node % 256), 1, 0>> >>]
       ELSE [ev |-> <<"rx", 0, 2, lt[2], 0, 0, 0, 0, 0, 0, 0>>, l |-> ll, nmt |-> IF lt[2] = 1 THEN 3 ELSE IF lt[2] = 2 THEN 4 ELSE 2, x |-> <<>>, reset |-> FALSE]
View == <<l, nmt>>
\* generation: the configured / persisted bit rates are pure data (they only appear as callback arguments)
ViewG == <<l.mode, l.step, l.stored, l.has, l.node, l.cfgNode, l.sNode, nmt>>
Rec(step) == /\ hist' = (IF Walk THEN Append(hist, step) ELSE <<step>>)
             /\ prev' = ViewG
\* C18 on the reference
Txs(x) == {k \in 1..Len(x) : x[k][1] = "tx" /\ x[k][2] = 2020}
StepOk(l0, lt, a) ==
  lt[1] = "lss" =>
    LET cs == lt[2][1] IN
    /\ Cardinality(Txs(a.x)) <= 1
    \* configuration, inquiry and store services act in configuration state only
    /\ (cs \in {17, 19, 23} \cup (90..94) /\ l0.mode = "wait" => a.l = l0 /\ a.x = <<>>)
    \* every answer repeats the command specifier (44h, 4Fh, 50h for the identification services)
    /\ \A k \in Txs(a.x) : a.x[k][4] = (IF cs = 67 THEN 68 ELSE IF cs = 75 THEN 79 ELSE IF cs = 76 THEN 80 ELSE cs)
    \* the selective sequence is the only way from waiting to configuration besides switch global
    /\ (l0.mode = "wait" /\ a.l.mode = "conf" => (cs = 4 \/ (cs = 67 /\ l0.step = 3)))
    /\ (a.l.cfgNode # l0.cfgNode => a.l.cfgNode \in (1..127) \cup {255})
    /\ (a.l.cfgBaud # l0.cfgBaud /\ a.l.cfgBaud # 0 => a.l.cfgBaud \in {1000, 800, 500, 250, 125, 50, 20, 10})
Do(lt) == LET a == Apply(l, nmt, lt) IN
          /\ l' = a.l /\ nmt' = a.nmt /\ gh' = StepOk(l, lt, a)
          /\ Rec(StepRec(a.ev, a.x))
Init == l = Lss0 /\ nmt = 2 /\ hist = <<>> /\ prev = <<>> /\ gh = TRUE
Next == \E lt \in Letters : Do(lt)
InvC18 == gh
\* C20 (LSS part) on the reference: what a reset communication leaves is the freshly initialised slave, except
\* that the persisted configuration (the application's storage, not the stack's) has been loaded
FreshFromL(ll) == [Lss0 EXCEPT !.node = IF ll.has THEN ll.sNode ELSE ll.node, !.sNode = ll.sNode, !.sBaud = ll.sBaud, !.has = ll.has]
InvC20L == ResetCom(l) = FreshFromL(l)
RECURSIVE RunLetters(_, _, _, _)
RunLetters(ll, m, ls, acc) ==
  IF ls = <<>> THEN acc
  ELSE LET a == Apply(ll, m, Head(ls)) IN RunLetters(a.l, a.nmt, Tail(ls), Append(acc, StepRec(a.ev, a.x)))
Probe == RunLetters(l, nmt, ProbeLetters, <<>>)
Cfg == [n |-> NodeId0, ident |-> Ident]
EmitEdge == hist = <<>> \/ PrintT(<<"EDGE", ToJson([c |-> Cfg, s |-> prev, e |-> hist[Len(hist)], d |-> ViewG, p |-> Probe])>>)
EmitWalk == Len(hist) < WalkLen \/ (PrintT(<<"WALK", ToJson([c |-> Cfg, h |-> hist, p |-> Probe])>>) /\ FALSE)
\* VIEW of the model-checking configurations: TLC evaluates invariants only on states it has not seen before, and "seen" is
\* decided on the VIEW; a step verdict kept in a ghost variable must therefore be part of it, or a violating edge INTO A KNOWN
\* STATE would be discarded unexamined (the generation configurations keep the plain View: the verdict is not behaviour)
ViewM == <<View, gh>>
=============================================================================
