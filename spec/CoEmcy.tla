------------------------------- MODULE CoEmcy -------------------------------
(***************************************************************************)
(* EMCY: error state, error register 1001h, EMCY frames, pre-defined error *)
(* field 1003h, COB-ID 1014h (co_emcy.c, co_emcy_hist.c, co_emcy_id.c).    *)
(* The reference keeps only what the property talks about: the set of      *)
(* active errors and the list of recorded activations (newest first); the  *)
(* error register and the error count are *derived* from the active set,   *)
(* which is the definition the C code's per-class counters must match.     *)
(***************************************************************************)
EXTENDS CoBytes, FiniteSets
CONSTANTS NodeId,
          Tbl,        \* error table: Seq of <<register bit, code>>
          Depth       \* history depth (number of 1003h sub-indices >= 1)

PREOP == 2   OPER == 3   STOP == 4   INIT == 1
EmcyOK(m) == m \in {PREOP, OPER}
SdoOK(m) == m \in {PREOP, OPER}
Errs == 0..(Len(Tbl) - 1)
Class(k) == Tbl[k + 1][1]
Code(k) == Tbl[k + 1][2]

\* state: mode, act (active errors), hist (activations, newest first, 4 bytes each),
\*        valid (1014h bit 31 clear)
Emcy0 == [mode |-> PREOP, act |-> {}, hist |-> <<>>, valid |-> TRUE]
\* error register as the property defines it
RegBit(act, b) == IF b = 0 THEN act # {} ELSE \E k \in act : Class(k) = b
Reg(act) == LET RECURSIVE S(_)
                S(b) == IF b > 7 THEN 0 ELSE (IF RegBit(act, b) THEN 2^b ELSE 0) + S(b + 1)
            IN S(0)
R(e, out) == [e |-> e, out |-> out]
Frame(e, code, reg, usr) == <<"tx", 128 + NodeId, 8, code % 256, code \div 256, reg>> \o usr
Send(e, code, act, usr) == IF EmcyOK(e.mode) /\ e.valid THEN <<Frame(e, code, Reg(act), usr)>> ELSE <<>>
NoUsr == <<0, 0, 0, 0, 0>>
\* COEmcySet(err, usr): usr = <<>> (none) or <<histLo, histHi, e1..e5>>
Set(e, k, usr) ==
  IF k \in e.act THEN R(e, <<>>)
  ELSE LET act == e.act \cup {k}
           hv == <<Code(k) % 256, Code(k) \div 256>> \o (IF usr = <<>> THEN <<0, 0>> ELSE SubSeq(usr, 1, 2))
           e1 == [e EXCEPT !.act = act, !.hist = Take(<<hv>> \o @, Depth)]
       IN R(e1, Send(e, Code(k), act, IF usr = <<>> THEN NoUsr ELSE SubSeq(usr, 3, 7)))
Clr(e, k) ==
  IF k \notin e.act THEN R(e, <<>>)
  ELSE LET act == e.act \ {k} IN R([e EXCEPT !.act = act], Send(e, 0, act, NoUsr))
\* COEmcyReset(silent): every active error is cleared, in table order
RECURSIVE ResetFrom(_, _, _, _)
ResetFrom(e, k, silent, out) ==
  IF k >= Len(Tbl) THEN R(e, out)
  ELSE LET c == Clr(e, k) IN ResetFrom(c.e, k + 1, silent, IF silent THEN out ELSE out \o c.out)
Reset(e, silent) == ResetFrom(e, 0, silent, <<>>)
Cnt(e) == Cardinality(e.act)
\* 1003h
HistRead(e, sub) == IF sub = 0 THEN <<Len(e.hist)>> ELSE IF sub <= Len(e.hist) THEN e.hist[sub] ELSE <<>>   \* <<>>: above the fill level, not asserted
HistWrite0(e, v) == IF v = 0 THEN [e |-> [e EXCEPT !.hist = <<>>], ok |-> TRUE] ELSE [e |-> e, ok |-> FALSE]

\* invariants of the reference itself (sanity: the derived register is the property's definition)
TypeOK(e) == e.act \subseteq Errs /\ Len(e.hist) <= Depth
=============================================================================
