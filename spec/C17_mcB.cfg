CONSTANTS NodeId = 5  Walk = FALSE  WalkLen = 0  CfgName = "B"
CONSTANT Groups <- GB  Dflt <- DB  Letters <- LB  ProbeLetters <- PP
INIT Init
NEXT Next
VIEW ViewM
INVARIANT InvC17
