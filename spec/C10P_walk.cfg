CONSTANTS NodeId = 5  NT = 1  NR = 1  Walk = TRUE  WalkLen = 40  PoolN = 16  CfgName = "C10P"
CONSTANT Objs <- MCObjs  ObjOrder <- MCOrder  V0 <- MCV0  TC0 <- TC10P  RC0 <- RC12  Sync0 <- S10P  Letters <- L10P  ProbeLetters <- P10P  Probe2Letters <- PNone
INIT Init
NEXT Next

CONSTRAINT EmitWalk
