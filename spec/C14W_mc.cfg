CONSTANTS NodeId = 5  NT = 1  NR = 1  Walk = FALSE  WalkLen = 0  PoolN = 16  CfgName = "C14W"
CONSTANT Objs <- MCObjs  ObjOrder <- MCOrder  V0 <- MCV0  TC0 <- TC14W  RC0 <- RC14W  Sync0 <- S12  Letters <- L14W  ProbeLetters <- P14W  Probe2Letters <- PNone
INIT Init
NEXT Next
VIEW ViewM
INVARIANT InvPdo
