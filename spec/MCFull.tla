-------------------------------- MODULE MCFull --------------------------------
(* configuration of the product model CoFull: one node with every service configured *)
EXTENDS CoFull
Ob(i, sb, z, r, w, m, a) == [idx |-> i, sub |-> sb, size |-> z, r |-> r, w |-> w, map |-> m, async |-> a]
FObjs == [a |-> Ob(8448, 0, 1, TRUE, TRUE, TRUE, TRUE), b |-> Ob(8449, 0, 1, TRUE, TRUE, TRUE, TRUE), w |-> Ob(8450, 0, 2, TRUE, TRUE, TRUE, FALSE),
          l |-> Ob(8451, 0, 4, TRUE, TRUE, TRUE, FALSE), r |-> Ob(8452, 0, 1, TRUE, FALSE, TRUE, FALSE), n |-> Ob(8453, 0, 1, TRUE, TRUE, FALSE, FALSE),
          W |-> Ob(8454, 0, 2, TRUE, TRUE, TRUE, TRUE), L |-> Ob(8455, 0, 4, TRUE, TRUE, TRUE, TRUE)]
FOrder == <<"a", "b", "w", "l", "r", "n", "W", "L">>
FV0 == [a |-> <<1>>, b |-> <<2>>, w |-> <<3, 4>>, l |-> <<5, 6, 7, 8>>, r |-> <<9>>, n |-> <<10>>, W |-> <<0, 0>>, L |-> <<0, 0, 0, 0>>]
M(o, bits) == <<bits, FObjs[o].sub, FObjs[o].idx % 256, FObjs[o].idx \div 256>>
Z4 == <<0, 0, 0, 0>>
TC(off, id, type, inh, evt, n, m) == [off |-> off, id |-> id, rtr |-> TRUE, ext |-> FALSE, type |-> type, inh |-> inh, evt |-> evt, n |-> n, m |-> m]
RC(off, id, type, n, m) == [off |-> off, id |-> id, rtr |-> FALSE, ext |-> FALSE, type |-> type, inh |-> 0, evt |-> 0, n |-> n, m |-> m]
\* TPDO #1 event driven (a, w) with inhibit 2 ticks and event time 3 ticks, TPDO #2 synchronous type 2 (b, l);
\* RPDO #1 asynchronous (b), RPDO #2 synchronous (a); SYNC producer off at boot with a 2 ms period stored
FTC == << TC(FALSE, 389, 254, 20, 3, 2, <<M("a", 8), M("w", 16), Z4, Z4>>), TC(FALSE, 645, 2, 0, 0, 2, <<M("b", 8), M("l", 32), Z4, Z4>>) >>
FRC == << RC(FALSE, 517, 254, 1, <<M("b", 8), Z4, Z4, Z4>>), RC(FALSE, 773, 1, 1, <<M("a", 8), Z4, Z4, Z4>>) >>
FSync == <<128, FALSE, 2000>>
FHc == << <<10, 2>>, <<11, 3>> >>
FTbl == << <<0, 4096>>, <<1, 8192>>, <<1, 8448>>, <<2, 12288>> >>
HcW(k, node, time) == <<"sdowr", 4118, k, <<time % 256, time \div 256, node, 0>>>>
D1 == <<17, 18, 19, 20, 21, 22, 23, 24>>

GNmt == {<<"nmt", cs, t>> : cs \in {1, 2, 128}, t \in {0, 5}} \cup {<<"nmt", 1, 6>>, <<"nmt", 7, 5>>}
GStart == {<<"nmt", 1, 0>>, <<"nmt", 1, 5>>}
GReset == {<<"nmt", 130, 5>>, <<"nmt", 129, 0>>, <<"nmt", 130, 6>>}
GMode == {<<"setmode", m>> : m \in {2, 3, 4}} \cup {<<"setmode", 1>>, <<"bootup">>, <<"apireset", 2>>}
\* the application holding the node in INITIALISATION: services used there, CONmtReset from there
GInit == {<<"setmode", 1>>, <<"bootup">>, <<"apireset", 2>>, <<"apireset", 1>>, <<"E", <<"set", 1, <<>>>>>>, <<"E", <<"set", 2, <<>>>>>>, <<"E", <<"cnt">>>>, <<"tick">>, <<"pool">>}
GTick == {<<"tick">>}
GHb == {<<"N", <<"hb", nd, st>>>> : nd \in {10, 11, 12}, st \in {5, 127}} \cup {<<"N", <<"hbev", nd>>>> : nd \in {10, 11}} \cup {<<"N", <<"hblast", 10>>>>}
       \cup {<<"N", HcW(k, nd, t)>> : k \in {1, 2}, nd \in {10, 12}, t \in {0, 2}}
       \cup {<<"N", <<"sdowr", 4119, 0, <<t, 0>>>>>> : t \in {0, 2, 3}} \cup {<<"N", <<"apihb", 4>>>>, <<"N", <<"sdord", 4119, 0>>>>, <<"N", <<"sdord", 4118, 1>>>>}
GApp == {<<"N", <<"apptmr", 1, 2, 2>>>>, <<"N", <<"apptmr", 2, 3, 0>>>>, <<"N", <<"other", 291>>>>, <<"N", <<"other", 1546>>>>, <<"N", <<"getmode">>>>, <<"pool">>}
GPdo == {<<"P", <<"trig", 1>>>>, <<"P", <<"wr", "a", <<7>>>>>>, <<"P", <<"wr", "a", <<1>>>>>>, <<"P", <<"api", "w", <<5, 5>>>>>>, <<"P", <<"wr", "b", <<9>>>>>>,
         <<"P", <<"rpdo", 517, <<6, 0, 0, 0, 0, 0, 0, 0>>>>>>, <<"P", <<"rpdo", 773, D1>>>>, <<"P", <<"rpdo", 518, D1>>>>, <<"P", <<"rd", "a">>>>, <<"P", <<"rd", "b">>>>}
GSync == {<<"P", <<"sync", 128>>>>, <<"P", <<"sync", 129>>>>}
GCfg == {<<"P", <<"cfg", "evt", TRUE, 1, 0>>>>, <<"P", <<"cfg", "evt", TRUE, 1, 3>>>>, <<"P", <<"cfg", "cid", TRUE, 1, <<133, 1, 0, 192>>>>>>, <<"P", <<"cfg", "cid", TRUE, 1, <<133, 1, 0, 64>>>>>>,
         <<"P", <<"cfg", "cid", FALSE, 2, <<5, 3, 0, 128>>>>>>, <<"P", <<"cfg", "cid", FALSE, 2, <<5, 3, 0, 0>>>>>>, <<"P", <<"cfg", "inh", TRUE, 1, 0>>>>,
         <<"P", <<"cfg", "sid", TRUE, 1, <<128, 0, 0, 64>>>>>>, <<"P", <<"cfg", "sid", TRUE, 1, <<128, 0, 0, 0>>>>>>, <<"P", <<"cfg", "scyc", TRUE, 1, 3000>>>>, <<"P", <<"cfg", "scyc", TRUE, 1, 500>>>>,
         \* another SYNC identifier, with and without the generate bit (refused while producing, or when the period cannot be resolved)
         <<"P", <<"cfg", "sid", TRUE, 1, <<129, 0, 0, 64>>>>>>, <<"P", <<"cfg", "sid", TRUE, 1, <<129, 0, 0, 0>>>>>>, <<"P", <<"cfg", "scyc", TRUE, 1, 0>>>>,
         <<"P", <<"rdcfg", "scyc", TRUE, 1>>>>, <<"P", <<"rdcfg", "cid", TRUE, 1>>>>}
GEmcy == {<<"E", <<"set", k, <<>>>>>> : k \in 0..3} \cup {<<"E", <<"clr", k>>>> : k \in 0..3} \cup {<<"E", <<"set", 1, EG!U1>>>>, <<"E", <<"reset", FALSE>>>>, <<"E", <<"reset", TRUE>>>>, <<"E", <<"cnt">>>>,
          <<"E", <<"rdreg">>>>, <<"E", <<"rdhist", 0>>>>, <<"E", <<"rdhist", 1>>>>, <<"E", <<"wrhist", 0>>>>, <<"E", <<"wrid", FALSE>>>>, <<"E", <<"wrid", TRUE>>>>}
GCsdo == {<<"C", <<"up", z, t>>>> : z \in {4, 8, 15}, t \in {2, 3}} \cup {<<"C", <<"down", z, 3, 10>>>> : z \in {1, 8, 14}} \cup {<<"C", <<"down", 5, 0, 10>>>>}
GSrv == {<<"C", <<"srv", k>>>> : k \in {"ok", "abort"}} \cup {<<"C", <<"state">>>>, <<"C", <<"ubuf">>>>}
FGroups == <<GNmt, GStart, GStart, GReset, GMode, GInit, GTick, GTick, GTick, GTick, GHb, GHb, GApp, GPdo, GPdo, GSync, GCfg, GEmcy, GCsdo, GSrv, GSrv>>
\* ---- letters with random parameters (the whole value range instead of a few representatives) ----
Rnd(n) == RandomElement(0..n)
RBytes(n) == [i \in 1..n |-> Rnd(255)]
RTime == LET k == Rnd(9) IN IF k < 5 THEN Rnd(6) ELSE IF k < 8 THEN 32760 + Rnd(16) ELSE Rnd(65535)       \* small, around the sign bit, anything
FRand(k) ==
  CASE k = 1 -> <<"P", <<"rpdo", RandomElement({517, 773}), RBytes(8)>>>>
    [] k = 2 -> LET o == RandomElement({"a", "b", "w", "l", "W", "L"}) IN <<"P", <<RandomElement({"wr", "api"}), o, RBytes(FObjs[o].size)>>>>
    [] k = 3 -> LET t == RTime IN <<"N", <<"sdowr", 4119, 0, <<t % 256, t \div 256>>>>>>
    [] k = 4 -> <<"N", HcW(1 + Rnd(1), RandomElement({10, 11, 12, 1 + Rnd(126)}), RTime)>>
    [] k = 5 -> <<"P", <<"cfg", RandomElement({"evt", "inh"}), TRUE, 1, RTime>>>>        \* (the event-driven TPDO: times of synchronous TPDOs are not ruled on)
    [] k = 6 -> <<"N", <<"hb", RandomElement({10, 11, 12, 1 + Rnd(126)}), RandomElement({0, 4, 5, 127, Rnd(255)})>>>>
    [] k = 7 -> <<"E", <<"set", Rnd(3), RBytes(7)>>>>
    [] k = 8 -> <<"N", <<"other", RandomElement({1 + Rnd(126), 257 + Rnd(126), 641 + Rnd(100), 1281 + Rnd(126), 1793 + Rnd(126)} \ {128, 133, 389, 517, 645, 773, 1541, 1417, 1802, 1803})>>>>
FNRand == 8
\* ---- a small alphabet for EXHAUSTIVE search of the product (breadth-first, no random letters): one letter per service and the events
\*      that couple them (mode changes, resets, ticks); TLC checks InvFull - mode agreement, reset = fresh start of the whole product,
\*      service frames only in permitted states, armed actions <= pool - on every reachable state
MiniLetters == {<<"tick">>, <<"nmt", 1, 5>>, <<"nmt", 128, 0>>, <<"nmt", 130, 5>>, <<"apireset", 2>>, <<"setmode", 1>>, <<"bootup">>,
                <<"N", <<"sdowr", 4119, 0, <<2, 0>>>>>>, <<"N", <<"sdowr", 4119, 0, <<0, 0>>>>>>,
                <<"P", <<"trig", 1>>>>, <<"P", <<"wr", "a", <<7>>>>>>, <<"P", <<"cfg", "evt", TRUE, 1, 0>>>>,
                <<"P", <<"cfg", "cid", TRUE, 1, <<133, 1, 0, 192>>>>>>, <<"P", <<"cfg", "cid", TRUE, 1, <<133, 1, 0, 64>>>>>>,
                <<"E", <<"set", 1, <<>>>>>>, <<"E", <<"clr", 1>>>>, <<"C", <<"up", 4, 2>>>>, <<"C", <<"srv", "ok">>>>}
MiniGroups == <<MiniLetters>>
\* thorough tier: STOPPED, the synchronous RPDO, SYNC consumption and the SYNC producer in addition (1.2 M states, 14 M transitions)
MiniGroupsT == <<MiniLetters \cup {<<"nmt", 2, 5>>, <<"P", <<"rpdo", 773, D1>>>>, <<"P", <<"sync", 128>>>>, <<"P", <<"cfg", "sid", TRUE, 1, <<128, 0, 0, 64>>>>>>}>>
ViewF == <<s, grp, gh>>
\* the probe looks at every service, resets the node, and looks again
Look == << <<"pool">>, <<"N", <<"getmode">>>>, <<"N", <<"sdord", 4119, 0>>>>, <<"N", <<"sdord", 4118, 1>>>>, <<"N", <<"sdord", 4118, 2>>>>, <<"P", <<"rdcfg", "sid", TRUE, 1>>>>, <<"P", <<"rdcfg", "cid", TRUE, 1>>>>,
           <<"E", <<"rdreg">>>>, <<"E", <<"cnt">>>>, <<"E", <<"rdhist", 0>>>>, <<"C", <<"state">>>>,
           <<"N", <<"hb", 10, 5>>>>, <<"N", <<"hb", 11, 5>>>>, <<"N", <<"hb", 12, 5>>>>, <<"P", <<"trig", 1>>>>, <<"P", <<"rpdo", 773, D1>>>>, <<"P", <<"sync", 128>>>>, <<"P", <<"sync", 128>>>>,
           <<"tick">>, <<"tick">>, <<"tick">>, <<"tick">>, <<"pool">>, <<"N", <<"hbev", 10>>>>, <<"N", <<"hbev", 11>>>>, <<"P", <<"rd", "a">>>>, <<"P", <<"rd", "b">>>>,
           <<"E", <<"set", 2, <<>>>>>>, <<"E", <<"clr", 2>>>>, <<"tick">>, <<"tick">>, <<"tick">>, <<"pool">> >>
FProbe == Look \o << <<"nmt", 130, 5>> >> \o Look \o << <<"nmt", 1, 5>>, <<"C", <<"up", 4, 5>>>>, <<"tick">>, <<"pool">>, <<"C", <<"srv", "ok">>>>, <<"C", <<"ubuf">>>>, <<"P", <<"trig", 1>>>>, <<"P", <<"wr", "a", <<33>>>>>>,
           <<"tick">>, <<"tick">>, <<"tick">>, <<"tick">>, <<"P", <<"sync", 128>>>>, <<"P", <<"sync", 128>>>>, <<"pool">> >>
===============================================================================
