CONSTANTS NodeId = 127  PoolN = 16  WalkLen = 45  HbInit = 0  NT = 2  NR = 2  Depth = 2  SrvNode = 9  CfgName = "fullB"
CONSTANT RandLetter <- FRand  NRand <- FNRand  HcInit <- BHc  Objs <- FObjs  ObjOrder <- FOrder  V0 <- FV0  TC0 <- BTC  RC0 <- BRC  Sync0 <- BSync  Tbl <- BTbl  Groups <- BGroups  ProbeLetters <- BProbe
INIT Init
NEXT Next
INVARIANT InvFull
CONSTRAINT EmitWalk
