CONSTANTS NodeId = 5  HbInit = 2  Walk = FALSE  WalkLen = 0  EvCap = 3  PoolN = 16
CONSTANT Letters <- L09  HcInit <- HC09  ProbeLetters <- P09
INIT Init
NEXT Next
VIEW ViewM
CONSTRAINT Bound
INVARIANTS InvC09 InvC10 InvC11 InvC20
