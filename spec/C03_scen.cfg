CONSTANTS SegMax = 127  NodeId = 1  Part = 0  NParts = 1
CONSTANT Dict <- MCDict  Scens <- Sc_C03_scen  PreObj <- MCPreObj
INIT Init
NEXT Next
