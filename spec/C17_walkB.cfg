CONSTANTS NodeId = 5  Walk = TRUE  WalkLen = 35  CfgName = "B"
CONSTANT Groups <- GB  Dflt <- DB  Letters <- LB  ProbeLetters <- PP
INIT Init
NEXT Next

CONSTRAINT EmitWalk
