CONSTANTS SegMax = 3  NodeId = 1  Walk = FALSE  WalkLen = 0  ProbeKind = "full"  PumpN = 0  ProbeReset = TRUE  ProbeB = FALSE
CONSTANT Dict <- MCDict  Mux <- MCMux  Letters <- LettersQuick
INIT Init
NEXT Next
VIEW View
CONSTRAINT EmitEdge
