CONSTANTS Max = 3
SPECIFICATION TSpec
INVARIANT InvPool
POSTCONDITION Accepted
CHECK_DEADLOCK FALSE
