CONSTANTS NodeId = 5  NT = 1  NR = 2  Walk = TRUE  WalkLen = 40  PoolN = 16  CfgName = "C09P"
CONSTANT Objs <- MCObjs  ObjOrder <- MCOrder  V0 <- MCV0  TC0 <- TC13  RC0 <- RC09P  Sync0 <- S12  Letters <- L09P  ProbeLetters <- P09P  Probe2Letters <- PNone
INIT Init
NEXT Next

CONSTRAINT EmitWalk
