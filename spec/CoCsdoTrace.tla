---------------------------- MODULE CoCsdoTrace ----------------------------
(***************************************************************************)
(* C19, direction code -> spec: validates traces RECORDED from the real    *)
(* SDO client against the CoCsdo reference.  A PRNG application            *)
(* (checks/csdo_trace.py) requests uploads / downloads of random sizes and *)
(* timeouts, lets time pass, and has the harness's built-in SDO server     *)
(* answer the client's last frame (conforming, or one of six deviations);  *)
(* it also issues requests FROM INSIDE the completion callback.  The       *)
(* injected server frames are part of the trace, so the reference needs no *)
(* model of the server: every recorded reaction must be explained by       *)
(* ReqUpload / ReqDownload / Resp / Tick.                                  *)
(* Trace lines (first line {"e":"cfg"}):                                   *)
(*  {"e":"req","k":"up"|"down","size":n,"tmt":t,"base":b,"ok":0|1,         *)
(*   "tx":[[8]..]}                                                         *)
(*  {"e":"rx","f":[8],"tx":[[8]..],"cb":[[4]..],"app":n,"chain":[..]}      *)
(*  {"e":"tick","tx":[[8]..],"cb":[[4]..],"chain":[..]}                    *)
(*  {"e":"ubuf","data":[..]}   {"e":"pool","acts":n}   {"e":"reset"}       *)
(* chain = <<>> or <<[k, size, tmt, base, ok, tx]>>: the request made      *)
(* inside the completion callback of this step and its outcome.  Whether   *)
(* the client counts as busy during its own completion callback is not     *)
(* ruled on by the property: both outcomes are allowed, but an ACCEPTED     *)
(* request is a transfer like any other (its callback comes exactly once,  *)
(* its timeout runs).                                                      *)
(* After a step the statement does not rule on (Resp ... open) the rest of *)
(* the behaviour is not compared (sync = FALSE until the next reset).      *)
(***************************************************************************)
EXTENDS CoCsdo, TLC, Json, IOUtils
CONSTANTS PoolN
TraceLog == ndJsonDeserialize(IOEnv.TRACE)
VARIABLES c, sync, l, nd
tvars == <<c, sync, l, nd>>
Ev == TraceLog[l]
Reject(what) == PrintT(<<"REJECT", ToJson([l |-> l, exp |-> what])>>) /\ FALSE
MatchFrm(p, o) == Len(p) = Len(o) /\ \A i \in 1..Len(p) : p[i] = -1 \/ p[i] = o[i]
\* predicted items of a step: transmitted frames <<"tx", id, 8, bytes>> and the completion callback <<"cb", "csdo", 0, idx, sub, code>>
TxOf(out) == SelectSeq(out, LAMBDA it : it[1] = "tx")
CbOf(out) == SelectSeq(out, LAMBDA it : it[1] = "cb")
MatchTx(out, tx) == LET p == TxOf(out) IN Len(p) = Len(tx) /\ \A k \in 1..Len(p) : MatchFrm(SubSeq(p[k], 4, 11), tx[k])
MatchCb(out, cb) == LET p == CbOf(out) IN Len(p) = Len(cb) /\ \A k \in 1..Len(p) : MatchFrm(SubSeq(p[k], 6, 9), cb[k])
Accepted(out) == \E k \in 1..Len(out) : out[k] = <<"ok">>
Req(cc, k, size, tmt, base) == IF k = "up" THEN ReqUpload(cc, size, tmt) ELSE ReqDownload(cc, size, tmt, base)

TInit == c = C0 /\ sync = TRUE /\ l = 2 /\ nd = 0
\* the request made from inside the completion callback of this step (if any), applied to the state c1 after the step
Chained(c1, hadCb) ==
  IF Ev.chain = <<>> THEN c1
  ELSE LET ch == Ev.chain[1] IN
       IF ch.ok = 1 THEN Req([c1 EXCEPT !.busy = FALSE], ch.k, ch.size, ch.tmt, ch.base).c ELSE c1
ChainOk(c1, hadCb) ==
  IF Ev.chain = <<>> THEN TRUE
  ELSE LET ch == Ev.chain[1]
           r == Req(c1, ch.k, ch.size, ch.tmt, ch.base) IN
       IF ~hadCb THEN Reject("chain without callback")
       ELSE IF ch.ok = 1 THEN (IF MatchTx(r.out, ch.tx) THEN TRUE ELSE Reject(<<"chain", r.out>>))
       ELSE IF ch.tx = <<>> THEN TRUE ELSE Reject("refused chain request transmitted a frame")
Unsynced == ~sync /\ c' = c /\ sync' = sync /\ nd' = nd
TReq == /\ Ev.e = "req"
        /\ \/ Unsynced
           \/ /\ sync
              /\ LET r == Req(c, Ev.k, Ev.size, Ev.tmt, Ev.base) IN
                 /\ c' = r.c /\ sync' = sync /\ nd' = nd + 1
                 /\ IF Accepted(r.out) # (Ev.ok = 1) THEN Reject(<<"req", r.out>>)
                    ELSE IF ~MatchTx(r.out, Ev.tx) THEN Reject(r.out) ELSE TRUE
React(r, open) ==
  IF open THEN c' = r.c /\ sync' = FALSE /\ nd' = nd
  ELSE /\ c' = Chained(r.c, CbOf(r.out) # <<>>) /\ sync' = sync /\ nd' = nd + 1
       /\ IF ~MatchTx(r.out, Ev.tx) THEN Reject(r.out)
          ELSE IF ~MatchCb(r.out, Ev.cb) THEN Reject(r.out)
          ELSE ChainOk(r.c, CbOf(r.out) # <<>>)
TRx == /\ Ev.e = "rx"
       /\ \/ Unsynced
          \/ /\ sync
             /\ IF ~c.busy
                THEN \* no transfer: the frame is not the client's; it reaches the application, nothing is sent
                     /\ c' = c /\ sync' = sync /\ nd' = nd + 1
                     /\ IF Ev.tx = <<>> /\ Ev.cb = <<>> /\ Ev.app = 1 THEN TRUE ELSE Reject("idle client reacted")
                ELSE LET r == Resp(c, Ev.f) IN React(r, r.open) /\ (IF Ev.app = 0 \/ r.open THEN TRUE ELSE Reject("app"))
TTick == /\ Ev.e = "tick"
         /\ \/ Unsynced
            \/ sync /\ React(Tick(c), FALSE)
TUbuf == /\ Ev.e = "ubuf" /\ UNCHANGED <<c, sync, nd>>
         /\ IF ~sync \/ c.buf = <<>> \/ c.busy THEN TRUE
            ELSE IF Len(c.buf) = Len(Ev.data) /\ \A i \in 1..Len(c.buf) : c.buf[i] = Ev.data[i] THEN TRUE ELSE Reject(c.buf)
TPool == /\ Ev.e = "pool" /\ UNCHANGED <<c, sync, nd>>
         /\ IF ~sync \/ Ev.acts = PoolN - (IF c.rem > 0 THEN 1 ELSE 0) THEN TRUE ELSE Reject(<<"acts", PoolN - (IF c.rem > 0 THEN 1 ELSE 0)>>)
TReset == Ev.e = "reset" /\ c' = C0 /\ sync' = TRUE /\ nd' = nd
TNext == l <= Len(TraceLog) /\ l' = l + 1 /\ (TReq \/ TRx \/ TTick \/ TUbuf \/ TPool \/ TReset)
TSpec == TInit /\ [][TNext]_tvars
TraceAccepted == TLCGet("stats").diameter = Len(TraceLog)
Report == l <= Len(TraceLog) \/ PrintT(<<"DET", ToJson([nd |-> nd, n |-> Len(TraceLog)])>>)
\* nothing armed when idle (C19: "a finished transfer leaves no timer or state behind")
InvIdle == ~c.busy => c.rem = 0
=============================================================================
