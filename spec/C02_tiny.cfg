CONSTANTS SegMax = 127  NodeId = 1  Part = 0  NParts = 1
CONSTANT Dict <- MCDict  Scens <- Sc_C02_tiny  PreObj <- MCPreObj
INIT Init
NEXT Next
