CONSTANTS SegMax = 127  NodeId = 1  Part = 0  NParts = 1
CONSTANT Dict <- MCDict  Scens <- ScenTiny
INIT Init
NEXT Next
