------------------------------- MODULE CoBytes -------------------------------
(***************************************************************************)
(* Bytes and little-endian words.  TLC integers are 32-bit signed, so no   *)
(* 32-bit protocol value (COB-IDs with bit 31, abort codes >= 2^31, ...)   *)
(* is ever held in a TLC integer: words are tuples of bytes, least         *)
(* significant first, with explicit carry arithmetic modulo 2^(8*width).   *)
(***************************************************************************)
EXTENDS Integers, Sequences
Byte == 0..255
LE(v, n) == [i \in 1..n |-> (v \div (256^(i-1))) % 256]        \* v < 2^31 only
Val(bs) == IF bs = <<>> THEN 0 ELSE bs[1] + 256 * (IF Len(bs) > 1 THEN bs[2] ELSE 0)
                                      + 65536 * (IF Len(bs) > 2 THEN bs[3] ELSE 0)      \* first three bytes
RECURSIVE AddC(_, _, _)
\* a + b (same length) with carry-in c, modulo 2^(8*Len)
AddC(a, b, c) == IF a = <<>> THEN <<>>
                 ELSE LET s == a[1] + b[1] + c IN <<s % 256>> \o AddC(Tail(a), Tail(b), s \div 256)
RECURSIVE SubC(_, _, _)
SubC(a, b, c) == IF a = <<>> THEN <<>>
                 ELSE LET s == a[1] - b[1] - c IN <<(s + 256) % 256>> \o SubC(Tail(a), Tail(b), IF s < 0 THEN 1 ELSE 0)
AddByte(a, k) == AddC(a, <<k>> \o [i \in 1..Len(a)-1 |-> 0], 0)   \* a + k, k a byte
SubByte(a, k) == SubC(a, <<k>> \o [i \in 1..Len(a)-1 |-> 0], 0)
Zeros(n) == [i \in 1..n |-> 0]
Take(s, n) == SubSeq(s, 1, IF n < Len(s) THEN n ELSE Len(s))
Drop(s, n) == SubSeq(s, n+1, Len(s))
Min(a, b) == IF a < b THEN a ELSE b
Max2(a, b) == IF a > b THEN a ELSE b
=============================================================================
