----------------------------- MODULE CoSsdoScen -----------------------------
(***************************************************************************)
(* C02 / C03: conforming SDO clients as deterministic dialogues against    *)
(* the CoSsdo reference server (scenario enumeration).  A scenario fixes   *)
(* object, payload length, transfer mode, size announcement, the segment   *)
(* the bus "loses", block sizes and acknowledge positions; the dialogue is *)
(* then determined.  Each dialogue is checked against the property in the  *)
(* model (object = payload, tail untouched / assembled bytes = object) and *)
(* printed with the predicted responses for replay on the C code.          *)
(***************************************************************************)
EXTENDS CoSsdo, TLC, Json, SequencesExt
CONSTANTS Dict,        \* the dictionary: Seq of objects (records with the harness fields too)
          NodeId, Scens, Part, NParts, PreObj
VARIABLE dummy

RxId == 1536 + NodeId
TxId == 1408 + NodeId
Step1(e, x) == [e |-> e, x |-> x]
TxItems(out) == [k \in 1..Len(out) |-> <<"tx", TxId, 8>> \o out[k]]
Rx(f, r) == Step1(<<"rx", RxId, 8>> \o f, TxItems(r.out) \o
                  (IF r.s.o # 0 /\ r.s.mode \in {"dseg", "bdl", "bdw"} THEN << <<"chg?", r.s.idx, r.s.sub>> >> ELSE <<>>))
\* the step that confirms a download may still change the target
RxC(f, r, idx, sub) == Step1(<<"rx", RxId, 8>> \o f, TxItems(r.out) \o << <<"chg?", idx, sub>> >>)
DumpStep(d, p) == Step1(<<"dump", d[p].idx, d[p].sub>>, << <<"obj", d[p].idx, d[p].sub>> \o d[p].data >>)
Mux(ob) == <<ob.idx % 256, ob.idx \div 256, ob.sub>>
Pat(seed, L) == [i \in 1..L |-> ((seed + 7 * i) % 251) + 1]
Pad7(bs) == bs \o [i \in 1..(7 - Len(bs)) |-> 0]
Pad4(bs) == bs \o [i \in 1..(4 - Len(bs)) |-> 0]

\* ---- download dialogues: [steps, s, d, ok] ------------------------------------
DlExp(s, d, p, P, sbit) ==
  LET L == Len(P)
      f == <<IF sbit THEN 35 + 4 * (4 - L) ELSE 34>> \o Mux(d[p]) \o Pad4(P)
      r == Step(s, d, f)
  IN [steps |-> <<RxC(f, r, d[p].idx, d[p].sub)>>, s |-> r.s, d |-> r.d, ok |-> r.out # <<>> /\ r.out[1][1] = 96]

RECURSIVE DlSegs(_, _, _, _, _, _, _)
DlSegs(s, d, p, P, off, tb, acc) ==
  LET rest == Len(P) - off
      k == Min(7, rest)
      last == rest <= 7
      f == <<16 * tb + 2 * (7 - k) + (IF last THEN 1 ELSE 0)>> \o Pad7(SubSeq(P, off + 1, off + k))
      r == Step(s, d, f)
      st == IF last THEN RxC(f, r, d[p].idx, d[p].sub) ELSE Rx(f, r)
  IN IF last \/ r.s.mode # "dseg" THEN [steps |-> Append(acc, st), s |-> r.s, d |-> r.d, ok |-> last /\ r.out # <<>> /\ r.out[1][1] = 32 + 16 * tb]
     ELSE DlSegs(r.s, r.d, p, P, off + k, 1 - tb, Append(acc, st))
DlSeg(s, d, p, P, sbit) ==
  LET f == <<IF sbit THEN 33 ELSE 32>> \o Mux(d[p]) \o (IF sbit THEN LE(Len(P), 3) \o <<0>> ELSE <<0, 0, 0, 0>>)
      r == Step(s, d, f)
  IN IF r.s.mode # "dseg" THEN [steps |-> <<Rx(f, r)>>, s |-> r.s, d |-> r.d, ok |-> FALSE]
     ELSE DlSegs(r.s, r.d, p, P, 0, 0, <<Rx(f, r)>>)

\* one block starting at payload offset off; lose = sequence number not delivered (0 = none)
RECURSIVE DlBlock(_, _, _, _, _, _, _, _)
DlBlock(s, d, P, off, k, nseg, lose, acc) ==
  IF k > nseg THEN [steps |-> acc, s |-> s, d |-> d, ack |-> -1]
  ELSE LET o == off + 7 * (k - 1)
           n == Min(7, Len(P) - o)
           fin == o + n = Len(P)
           f == <<k + (IF fin THEN 128 ELSE 0)>> \o Pad7(SubSeq(P, o + 1, o + n))
       IN IF k = lose THEN DlBlock(s, d, P, off, k + 1, nseg, lose, acc)
          ELSE LET r == Step(s, d, f) IN
               IF k = nseg THEN [steps |-> Append(acc, Rx(f, r)), s |-> r.s, d |-> r.d,
                                 ack |-> IF r.out # <<>> /\ r.out[1][1] = 162 THEN r.out[1][2] ELSE -1]
               ELSE DlBlock(r.s, r.d, P, off, k + 1, nseg, lose, Append(acc, Rx(f, r)))
\* blocks until everything is acknowledged; loss = <<block number, sequence number>> lost once
RECURSIVE DlBlocks(_, _, _, _, _, _, _, _)
DlBlocks(s, d, p, P, off, bno, loss, acc) ==
  LET nseg == Min(SegMax, (Len(P) - off + 6) \div 7)
      lose == IF loss[1] = bno /\ loss[2] < nseg THEN loss[2] ELSE 0      \* the last segment of a block is never the lost one
      b == DlBlock(s, d, P, off, 1, nseg, lose, acc)
  IN IF b.ack < 0 \/ bno > 100 THEN [steps |-> b.steps, s |-> b.s, d |-> b.d, ok |-> FALSE]
     ELSE LET off1 == off + 7 * b.ack IN
          IF off1 >= Len(P)
          THEN LET n == 7 - (((Len(P) - 1) % 7) + 1)
                   f == <<193 + 4 * n, 0, 0, 0, 0, 0, 0, 0>>
                   r == Step(b.s, b.d, f)
               IN [steps |-> Append(b.steps, RxC(f, r, d[p].idx, d[p].sub)), s |-> r.s, d |-> r.d, ok |-> r.out # <<>> /\ r.out[1][1] = 161]
          ELSE DlBlocks(b.s, b.d, p, P, off1, bno + 1, loss, b.steps)
DlBlk(s, d, p, P, sbit, loss) ==
  LET f == <<IF sbit THEN 194 ELSE 192>> \o Mux(d[p]) \o (IF sbit THEN LE(Len(P), 3) \o <<0>> ELSE <<0, 0, 0, 0>>)
      r == Step(s, d, f)
  IN IF r.s.mode # "bdl" THEN [steps |-> <<Rx(f, r)>>, s |-> r.s, d |-> r.d, ok |-> FALSE]
     ELSE DlBlocks(r.s, r.d, p, P, 0, 1, loss, <<Rx(f, r)>>)

\* ---- upload dialogues: [steps, s, d, data, ok] -----------------------------------
RECURSIVE UlSegs(_, _, _, _, _)
UlSegs(s, d, tb, data, acc) ==
  LET f == <<96 + 16 * tb, 0, 0, 0, 0, 0, 0, 0>>
      r == Step(s, d, f)
      c == r.out[1][1]
      n == 7 - ((c \div 2) % 8)
      data1 == data \o SubSeq(r.out[1], 2, 1 + n)
  IN IF r.out = <<>> \/ c >= 128 THEN [steps |-> Append(acc, Rx(f, r)), s |-> r.s, d |-> r.d, data |-> data, ok |-> FALSE]
     ELSE IF c % 2 = 1 THEN [steps |-> Append(acc, Rx(f, r)), s |-> r.s, d |-> r.d, data |-> data1, ok |-> TRUE]
     ELSE UlSegs(r.s, r.d, 1 - tb, data1, Append(acc, Rx(f, r)))
UlSeg(s, d, p) ==
  LET f == <<64>> \o Mux(d[p]) \o <<0, 0, 0, 0>>
      r == Step(s, d, f)
      c == r.out[1][1]
  IN IF c = 65 THEN UlSegs(r.s, r.d, 0, <<>>, <<Rx(f, r)>>)
     ELSE IF c >= 67 /\ c <= 79 THEN [steps |-> <<Rx(f, r)>>, s |-> r.s, d |-> r.d, data |-> SubSeq(r.out[1], 5, 4 + (4 - ((c - 67) \div 4))), ok |-> TRUE]
     ELSE [steps |-> <<Rx(f, r)>>, s |-> r.s, d |-> r.d, data |-> <<>>, ok |-> FALSE]

\* block upload: plan = sequence of <<ack position, next block size>>; ack position
\* -1 = acknowledge everything; the last element of the plan is reused when it runs out
RECURSIVE UlAcks(_, _, _, _, _, _, _)
UlAcks(s, d, size, data, plan, n, acc) ==
  \* s.mode = "bul": a block of s.sent segments has just been received
  LET pl == IF plan = <<>> THEN <<-1, SegMax>> ELSE Head(plan)
      ack == IF pl[1] < 0 \/ pl[1] > s.sent THEN s.sent ELSE pl[1]
      f == <<162, ack, pl[2], 0, 0, 0, 0, 0>>
      r == Step(s, d, f)
      good == Take(data, Min(Len(data), s.pos + 7 * ack))       \* bytes of acknowledged segments are kept
  IN IF n > 700 THEN [steps |-> acc, s |-> s, d |-> d, data |-> data, ok |-> FALSE]
     ELSE IF r.s.mode = "bue"
     THEN LET f2 == <<161, 0, 0, 0, 0, 0, 0, 0>>
              r2 == Step(r.s, r.d, f2)
          IN [steps |-> acc \o <<Rx(f, r), Rx(f2, r2)>>, s |-> r2.s, d |-> r2.d, data |-> Take(data, size), ok |-> TRUE]
     ELSE IF r.s.mode # "bul" THEN [steps |-> Append(acc, Rx(f, r)), s |-> r.s, d |-> r.d, data |-> data, ok |-> FALSE]
     ELSE LET recv == FoldLeft(LAMBDA a, fr : a \o SubSeq(fr, 2, 8), <<>>, r.out) IN
          UlAcks(r.s, r.d, size, good \o recv, IF plan = <<>> THEN <<>> ELSE Tail(plan), n + 1, Append(acc, Rx(f, r)))
UlBlk(s, d, p, bs0, plan) ==
  LET f == <<160>> \o Mux(d[p]) \o <<bs0, 0, 0, 0>>
      r == Step(s, d, f)
  IN IF r.s.mode # "bui" THEN [steps |-> <<Rx(f, r)>>, s |-> r.s, d |-> r.d, data |-> <<>>, ok |-> FALSE]
     ELSE LET f2 == <<163, 0, 0, 0, 0, 0, 0, 0>>
              r2 == Step(r.s, r.d, f2)
              recv == FoldLeft(LAMBDA a, fr : a \o SubSeq(fr, 2, 8), <<>>, r2.out)
          IN UlAcks(r2.s, r2.d, Len(d[p].data), recv, plan, 0, <<Rx(f, r), Rx(f2, r2)>>)

\* ---- scenarios -----------------------------------------------------------------------
\* scenario record: [t |-> "dl"/"ul", p, mode, L, sbit, loss, bs, plan, seed]
RunScen(sc, s, d) ==
  IF sc.t = "dl"
  THEN LET P == Pat(sc.seed, sc.L) IN
       IF sc.mode = "exp" THEN DlExp(s, d, sc.p, P, sc.sbit)
       ELSE IF sc.mode = "seg" THEN DlSeg(s, d, sc.p, P, sc.sbit)
       ELSE DlBlk(s, d, sc.p, P, sc.sbit, sc.loss)
  ELSE IF sc.mode = "seg" THEN UlSeg(s, d, sc.p) ELSE UlBlk(s, d, sc.p, sc.bs, sc.plan)
\* prelude: a transfer the client gave up without its abort reaching the server (conforming: the abort
\* service is unconfirmed); sc.pre = 0 none, 1 a segmented download of object PreObj left after one segment,
\* 2 a segmented upload of PreObj left after one segment
PreSteps(sc) ==
  IF sc.pre = 0 THEN [steps |-> <<>>, s |-> Idle, d |-> Dict]
  ELSE IF sc.pre = 1
  THEN LET f1 == <<33>> \o Mux(Dict[PreObj]) \o LE(Len(Dict[PreObj].data), 3) \o <<0>>
           r1 == Step(Idle, Dict, f1)
           f2 == <<0>> \o Pat(99, 7)
           r2 == Step(r1.s, r1.d, f2)
       IN [steps |-> <<Rx(f1, r1), Rx(f2, r2)>>, s |-> r2.s, d |-> r2.d]
  ELSE LET f1 == <<64>> \o Mux(Dict[PreObj]) \o <<0, 0, 0, 0>>
           r1 == Step(Idle, Dict, f1)
           f2 == <<96, 0, 0, 0, 0, 0, 0, 0>>
           r2 == Step(r1.s, r1.d, f2)
       IN [steps |-> <<Rx(f1, r1), Rx(f2, r2)>>, s |-> r2.s, d |-> r2.d]
\* the property on the model: a confirmed download leaves payload ++ old tail; an upload assembles the object
ScenOK(sc, r) ==
  /\ r.ok
  /\ r.s = Idle
  /\ sc.t = "dl" => /\ Take(r.d[sc.p].data, sc.L) = Pat(sc.seed, sc.L)
                    /\ ((sc.pre # 1 \/ sc.p # PreObj) => r.d[sc.p].data = Pat(sc.seed, sc.L) \o Drop(Dict[sc.p].data, sc.L))
                    /\ \A q \in 1..Len(Dict) : (q # sc.p /\ (sc.pre # 1 \/ q # PreObj)) => r.d[q] = Dict[q]
  /\ (sc.t = "ul" /\ (sc.pre # 1 \/ sc.p # PreObj)) => (r.data = Dict[sc.p].data /\ \A q \in 1..Len(Dict) : (sc.pre # 1 \/ q # PreObj) => r.d[q] = Dict[q])
\* emitted behaviour: the dialogue, a dump of the target, then the same object uploaded segmented
\* (probe: what a later client sees)
Beh(sc, r) ==
  LET u == UlSeg(r.s, r.d, sc.p)
  IN [c |-> [n |-> NodeId, k |-> SegMax], h |-> PreSteps(sc).steps \o r.steps \o <<DumpStep(r.d, sc.p)>> \o (IF Dict[sc.p].r THEN u.steps ELSE <<>>)]
ScenSeq == SetToSeq(Scens)
\* the scenario set is split over NParts parallel TLC runs
ASSUME \A i \in 1..Len(ScenSeq) : (i % NParts = Part) =>
          LET sc == ScenSeq[i]
              pr == PreSteps(sc)
              r == RunScen(sc, pr.s, pr.d)
          IN /\ ScenOK(sc, r) \/ (PrintT(<<"SCENARIO FAILS IN THE MODEL", sc>>) /\ FALSE)
             /\ PrintT(<<"BEH", ToJson(Beh(sc, r))>>)
Init == dummy = 0
Next == UNCHANGED dummy
=============================================================================
