CONSTANT U <- UQ  Probes <- PQ  AccDict <- Acc
CONSTANTS NodeIds = {1, 2, 127}  Lens = {0, 1, 4, 5, 6, 255, 256, 257, 300, 301}  Bases = {1, 200}
INIT Init
NEXT Next
