CONSTANT U <- UT  Probes <- PQ  AccDict <- Acc
CONSTANTS NodeIds = {1, 2, 127}  Lens = {0, 1, 2, 3, 4, 5, 6, 7, 254, 255, 256, 257, 299, 300, 301, 512, 1000}  Bases = {1, 200, 77}  ValMode = "b"
INIT Init
NEXT Next
