------------------------------- MODULE CoCsdo -------------------------------
(***************************************************************************)
(* SDO client, src/service/cia301/co_csdo.c (one client, expedited and     *)
(* segmented transfers) together with the timeout action of a transfer.    *)
(* state: busy, kind ("up"/"upseg"/"down"/"downseg"), size (user buffer),  *)
(*   pos (bytes moved), tb (toggle), tmt (timeout in ticks, 0 = none),     *)
(*   rem (ticks until the timeout fires, 0 = not armed), buf (user buffer  *)
(*   content for uploads: received bytes, 204 = untouched), sentAll        *)
(* The object accessed is Idx:Sub; ids: requests on TxId, answers on RxId. *)
(***************************************************************************)
EXTENDS CoBytes, FiniteSets
CONSTANTS Idx, Sub, TxId, RxId

C0 == [busy |-> FALSE, kind |-> "", size |-> 0, pos |-> 0, tb |-> 0, tmt |-> 0, rem |-> 0, buf |-> <<>>, base |-> 0]
Mx == <<Idx % 256, Idx \div 256, Sub>>
R(c, out) == [c |-> c, out |-> out]
Tx(bytes) == <<"tx", TxId, 8>> \o bytes
Done(code) == <<"cb", "csdo", 0, Idx, Sub>> \o code
OKC == <<0, 0, 0, 0>>
TIMEOUT == <<0, 0, 4, 5>>
\* finished: idle again, nothing armed
Fin(c, code) == R([c EXCEPT !.busy = FALSE, !.rem = 0, !.kind = ""], <<Done(code)>>)
Pad(s, n) == s \o [i \in 1..(n - Len(s)) |-> 0]
DlByte(c, i) == (c.base + i) % 256          \* i-th byte (0-based) of the user's download buffer

ReqUpload(c, size, tmt) ==
  IF c.busy THEN R(c, << <<"err", -2>> >>)
  ELSE R([c EXCEPT !.busy = TRUE, !.kind = IF size <= 4 THEN "up" ELSE "upseg", !.size = size, !.pos = 0, !.tb = 0,
                   !.tmt = tmt, !.rem = tmt, !.buf = [i \in 1..size |-> 204]],
         << Tx(<<64>> \o Mx \o <<0, 0, 0, 0>>), <<"ok">> >>)
ReqDownload(c, size, tmt, base) ==
  IF c.busy THEN R(c, << <<"err", -2>> >>)
  ELSE LET c1 == [c EXCEPT !.busy = TRUE, !.kind = IF size <= 4 THEN "down" ELSE "downseg", !.size = size, !.pos = 0, !.tb = 0,
                           !.tmt = tmt, !.rem = tmt, !.base = base, !.buf = <<>>] IN
       IF size <= 4 THEN R(c1, << Tx(<<35 + 4 * (4 - size)>> \o Mx \o Pad([i \in 1..size |-> DlByte(c1, i - 1)], 4)), <<"ok">> >>)
       ELSE R(c1, << Tx(<<33>> \o Mx \o LE(size, 3) \o <<0>>), <<"ok">> >>)
\* next download segment from position pos
DlSegment(c) ==
  LET k == Min(7, c.size - c.pos)
      last == c.size - c.pos <= 7
      data == [i \in 1..k |-> DlByte(c, c.pos + i - 1)] IN
  R([c EXCEPT !.pos = @ + k, !.rem = c.tmt], <<Tx(<<16 * c.tb + 2 * (7 - k) + (IF last THEN 1 ELSE 0)>> \o Pad(data, 7))>>)

\* a frame from the server (8 data bytes f) while a transfer is running:
\*   [c, out, open] open = TRUE: reaction not asserted (malformed answers the statement does not rule on)
Free(c) == [c |-> c, out |-> <<>>, open |-> TRUE]
Det(r) == [c |-> r.c, out |-> r.out, open |-> FALSE]
\* frames an expedited transfer ignores: command bits 0, 1 and 6 all clear (incl. an abort frame for another object, e.g. the late
\* abort of an earlier transfer): nothing happens, the transfer goes on waiting for its response or its timeout
Ignored(c, cmd) == c.kind \in {"up", "down"} /\ cmd % 4 = 0 /\ (cmd \div 64) % 2 = 0
Resp(c, f) ==
  LET cmd == f[1] IN
  IF cmd = 128 /\ SubSeq(f, 2, 4) = Mx THEN Det(Fin(c, SubSeq(f, 5, 8)))
  ELSE IF Ignored(c, cmd) THEN Det(R(c, <<>>))
  ELSE IF cmd = 128 THEN Free(c)
  ELSE CASE c.kind = "up" ->
              IF cmd >= 67 /\ cmd <= 79 /\ (cmd - 67) % 4 = 0
              THEN LET w == 4 - ((cmd - 67) \div 4) IN
                   IF w > c.size THEN Free(c)
                   ELSE Det(Fin([c EXCEPT !.buf = SubSeq(f, 5, 4 + w) \o SubSeq(@, w + 1, c.size)], OKC))
              ELSE Free(c)
         [] c.kind = "down" -> IF cmd = 96 THEN Det(Fin(c, OKC)) ELSE Free(c)
         [] c.kind = "upseg" ->
              IF cmd = 65 /\ c.pos = 0 /\ c.tb = 0 /\ c.buf[1] = 204 /\ c.base = 0     \* initiate response
              THEN IF SubSeq(f, 2, 4) = Mx /\ SubSeq(f, 5, 8) = LE(c.size, 3) \o <<0>>
                   THEN Det(R([c EXCEPT !.rem = c.tmt, !.base = 1], <<Tx(<<96, 0, 0, 0, 0, 0, 0, 0>>)>>))
                   ELSE Det(Fin(c, <<-1, -1, -1, -1>>))                  \* size / multiplexer mismatch: ends locally with an error code
              ELSE IF cmd < 32 /\ c.base = 1                                                \* upload segment
              THEN IF (cmd \div 16) % 2 # c.tb THEN Det(Fin(c, <<-1, -1, -1, -1>>))
                   ELSE LET k == 7 - ((cmd \div 2) % 8)
                            last == cmd % 2 = 1 IN
                        IF k > c.size - c.pos \/ (last /\ c.pos + k # c.size) \/ (~last /\ (k # 7 \/ c.pos + k >= c.size)) THEN Free(c)    \* not a conforming segment for this buffer
                        ELSE LET c1 == [c EXCEPT !.buf = SubSeq(@, 1, c.pos) \o SubSeq(f, 2, 1 + k) \o SubSeq(@, c.pos + k + 1, c.size), !.pos = @ + k] IN
                             IF last THEN Det(Fin(c1, OKC))
                             ELSE Det(R([c1 EXCEPT !.tb = 1 - @, !.rem = c.tmt], <<Tx(<<96 + 16 * (1 - c.tb), 0, 0, 0, 0, 0, 0, 0>>)>>))
              ELSE Free(c)
         [] c.kind = "downseg" ->
              IF cmd = 96 /\ c.pos = 0
              THEN IF SubSeq(f, 2, 4) = Mx THEN Det(DlSegment(c)) ELSE Det(Fin(c, <<-1, -1, -1, -1>>))
              ELSE IF cmd \in {32, 48} /\ c.pos > 0
              THEN IF (cmd \div 16) % 2 # c.tb THEN Det(Fin(c, <<-1, -1, -1, -1>>))
                   ELSE IF c.pos = c.size THEN Det(Fin(c, OKC))
                   ELSE Det(DlSegment([c EXCEPT !.tb = 1 - @]))
              ELSE Free(c)
         [] OTHER -> Free(c)
\* one tick: the timeout of the running transfer
Tick(c) == IF c.rem = 0 THEN R(c, <<>>)
           ELSE IF c.rem > 1 THEN R([c EXCEPT !.rem = @ - 1], <<>>)
           ELSE LET f == Fin(c, TIMEOUT) IN R(f.c, <<Tx(<<128>> \o Mx \o TIMEOUT)>> \o f.out)
\* the conforming next answer of a server holding object bytes SrvByte(i) for uploads
SrvByte(i) == (i * 3 + 1) % 256
ServerOk(c) ==
  CASE c.kind = "up" -> <<67 + 4 * (4 - c.size)>> \o Mx \o Pad([i \in 1..c.size |-> SrvByte(i - 1)], 4)
    [] c.kind = "down" -> <<96>> \o Mx \o <<0, 0, 0, 0>>
    [] c.kind = "upseg" /\ c.base = 0 -> <<65>> \o Mx \o LE(c.size, 3) \o <<0>>
    [] c.kind = "upseg" -> LET k == Min(7, c.size - c.pos)  last == c.size - c.pos <= 7 IN
                           <<16 * c.tb + 2 * (7 - k) + (IF last THEN 1 ELSE 0)>> \o Pad([i \in 1..k |-> SrvByte(c.pos + i - 1)], 7)
    [] c.kind = "downseg" /\ c.pos = 0 -> <<96>> \o Mx \o <<0, 0, 0, 0>>
    [] c.kind = "downseg" -> <<32 + 16 * c.tb, 0, 0, 0, 0, 0, 0, 0>>
    [] OTHER -> <<0, 0, 0, 0, 0, 0, 0, 0>>
=============================================================================
