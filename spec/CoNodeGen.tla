------------------------------ MODULE CoNodeGen ------------------------------
(***************************************************************************)
(* Generation / model-checking wrapper of CoNode for C09, C10, C11.        *)
(* Letters (tuples) are translated into harness events; the alphabet, the  *)
(* initial configuration and the probe are constants of the configuration. *)
(***************************************************************************)
EXTENDS CoNode, Json, SequencesExt
CONSTANTS Letters, HbInit, HcInit, ProbeLetters, Walk, WalkLen, EvCap, PoolN
VARIABLES n, hist, prev, gh
vars == <<n, hist, prev, gh>>
\* gh: ghost bookkeeping for the invariants:
\*   boots   boot-up frames sent by the step just taken
\*   ok      claim-specific verdict of the step just taken

StepRec(e, x) == [e |-> e, x |-> x]
RxEv(id, dlc, f) == <<"rx", id, dlc>> \o f
Z8 == <<0, 0, 0, 0, 0, 0, 0, 0>>
Pad8(s) == s \o [i \in 1..(8 - Len(s)) |-> 0]
\* letter -> [ev, r] : harness event and model reaction
Apply(nn, l) ==
  CASE l[1] = "nmt"    -> [ev |-> RxEv(0, 2, Pad8(<<l[2], l[3]>>)), r |-> Rx(nn, 0, 2, Pad8(<<l[2], l[3]>>))]
    [] l[1] = "hb"     -> [ev |-> RxEv(1792 + l[2], 1, Pad8(<<l[3]>>)), r |-> Rx(nn, 1792 + l[2], 1, Pad8(<<l[3]>>))]
    [] l[1] = "tick"   -> [ev |-> <<"tick">>, r |-> Tick(nn)]
    [] l[1] = "sdowr"  -> [ev |-> RxEv(SdoRx, 8, SdoWrFrame(l[2], l[3], l[4])), r |-> Rx(nn, SdoRx, 8, SdoWrFrame(l[2], l[3], l[4]))]
    [] l[1] = "sdord"  -> [ev |-> RxEv(SdoRx, 8, SdoRdFrame(l[2], l[3])), r |-> Rx(nn, SdoRx, 8, SdoRdFrame(l[2], l[3]))]
    [] l[1] = "rpdo"   -> [ev |-> RxEv(512 + NodeId, 1, Pad8(<<l[2]>>)), r |-> Rx(nn, 512 + NodeId, 1, Pad8(<<l[2]>>))]
    [] l[1] = "sync"   -> [ev |-> RxEv(128, 0, Z8), r |-> Rx(nn, 128, 0, Z8)]
    [] l[1] = "lss"    -> [ev |-> RxEv(2021, 8, Pad8(<<4, 0>>)), r |-> Rx(nn, 2021, 8, Pad8(<<4, 0>>))]
    [] l[1] = "other"  -> [ev |-> RxEv(l[2], 8, Pad8(<<1, 2, 3>>)), r |-> Rx(nn, l[2], 8, Pad8(<<1, 2, 3>>))]
    [] l[1] = "setmode" -> [ev |-> <<"nmt_set", l[2]>>, r |-> ApiSetMode(nn, l[2])]
    [] l[1] = "bootup" -> [ev |-> <<"nmt_bootup">>, r |-> Bootup(nn)]
    [] l[1] = "emcyset" -> [ev |-> <<"emcy_set", 0>>, r |-> EmcySet1(nn)]
    [] l[1] = "emcyclr" -> [ev |-> <<"emcy_clr", 0>>, r |-> EmcyClr1(nn)]
    [] l[1] = "trig"   -> [ev |-> <<"tpdo_trig", 0>>, r |-> TpdoTrig0(nn)]
    [] l[1] = "hbev"   -> [ev |-> <<"hb_events", l[2]>>, r |-> GetHbEvents(nn, l[2])]
    [] l[1] = "hblast" -> [ev |-> <<"hb_last", l[2]>>, r |-> LastHbState(nn, l[2])]
    [] l[1] = "apihb"  -> [ev |-> <<"wr16", 4119, 0, l[2] % 256, l[2] \div 256>>, r |-> R(HbWrite(nn, l[2]), << <<"ok">> >>)]
    [] l[1] = "apptmr" -> IF \E k \in 1..Len(nn.app) : nn.app[k].h = l[2]            \* handle still alive: nothing to create
                          THEN [ev |-> <<"nmt_get">>, r |-> R(nn, << <<"ret", nn.mode>> >>)]
                          ELSE [ev |-> <<"tmr_create", l[2], l[3], l[4]>>, r |-> R(AppCreate(nn, l[2], l[3], l[4]), << <<"ret", 0>> >>)]
    [] l[1] = "pool"   -> [ev |-> <<"pool">>, r |-> R(nn, << <<"acts", PoolN - Armed(nn)>> >>)]
    [] l[1] = "getmode" -> [ev |-> <<"nmt_get">>, r |-> R(nn, << <<"ret", nn.mode>> >>)]

View == n
Rec(step) == /\ hist' = IF Walk THEN Append(hist, step) ELSE <<step>>
             /\ prev' = View
Boots(out) == Cardinality({k \in 1..Len(out) : out[k] = BootFrame})
Txs(out) == Cardinality({k \in 1..Len(out) : out[k][1] = "tx"})
HasCanRx(out) == \E k \in 1..Len(out) : out[k][1] = "cb" /\ out[k][2] = "canrx"

\* C09 claims about one step of the reference
C09Ok(n0, l, r) ==
  \* exactly one boot-up frame per entry to PRE-OPERATIONAL from initialisation
  \* (an application that forces a mode with CONmtSetMode bypasses the boot-up protocol: no frame)
  /\ Boots(r.out) = (IF l[1] = "setmode" THEN 0 ELSE IF n0.mode = INIT /\ r.n.mode = PREOP THEN 1
                     ELSE IF l[1] = "nmt" /\ l[2] \in {129, 130} /\ NmtOK(n0.mode) /\ l[3] \in {0, NodeId} THEN 1 ELSE 0)
  \* the mode changes only by a command addressed to this node / all nodes, or by the application
  /\ (r.n.mode # n0.mode => (l[1] \in {"setmode", "bootup"} \/ (l[1] = "nmt" /\ l[3] \in {0, NodeId} /\ l[2] \in {1, 2, 128, 129, 130})))
  \* services react only where permitted
  /\ (l[1] \in {"sdowr", "sdord"} /\ ~SdoOK(n0.mode) => Txs(r.out) = 0)
  /\ (l[1] = "rpdo" /\ ~PdoOK(n0.mode) => r.n.r8 = n0.r8)
  /\ (l[1] = "trig" /\ ~PdoOK(n0.mode) => Txs(r.out) = 0)
  /\ (l[1] \in {"emcyset", "emcyclr"} /\ ~EmcyOK(n0.mode) => Txs(r.out) = 0)
  \* an unclaimed frame reaches the application once and nothing is transmitted (not asserted for STOP / INVALID)
  /\ (HasCanRx(r.out) => Txs(r.out) = 0)
  /\ (l[1] = "other" /\ n0.mode \in {INIT, PREOP, OPER} => HasCanRx(r.out))
  /\ (l[1] = "lss" => r.out = <<>>)
\* C10: heartbeat exactly when due with the current state; ghost: ticks since last (re)start
C10Ok(n0, l, r) ==
  LET hbs == {k \in 1..Len(r.out) : r.out[k] = <<"tx", 1792 + NodeId, 1, ModeCode(n0.mode)>> /\ l[1] = "tick"} IN
  /\ (l[1] = "tick" /\ n0.hbRem = 1 /\ NmtOK(n0.mode)) <=> (hbs # {})
  /\ Cardinality(hbs) <= 1
  /\ (l[1] \in {"apihb"} => r.n.hbRem = l[2])
\* C11: events exactly on expiry; counter saturates; change callback iff state differs
C11Ok(n0, l, r) ==
  /\ (l[1] = "tick" => \A nd \in {n0.hc[k].node : k \in 1..Len(n0.hc)} :
        (\E k \in 1..Len(n0.hc) : n0.hc[k].node = nd /\ n0.hc[k].rem = 1) <=> (\E j \in 1..Len(r.out) : r.out[j] = Cb2("hbevent", nd)))
  /\ \A k \in 1..Len(r.n.hc) : r.n.hc[k].rem > 0 => r.n.hc[k].on
  /\ \A j, k \in 1..Len(r.n.hc) : (j # k /\ r.n.hc[j].on /\ r.n.hc[k].on) => r.n.hc[j].node # r.n.hc[k].node

\* C20 on the reference: directly after a reset the communication state equals that of a node that was
\* freshly initialised and started with the current dictionary values (1017h, 1016h), application
\* bytes and application timers untouched
FreshFrom(n0) == LET f == Bootup(Node0(n0.hbT, [k \in 1..Len(n0.hc) |-> <<n0.hc[k].node, n0.hc[k].time>>])).n IN
                 [f EXCEPT !.v8 = n0.v8, !.r8 = n0.r8, !.app = n0.app]
C20Ok(n0, l, r) == (l[1] = "nmt" /\ l[2] \in {129, 130} /\ l[3] \in {0, NodeId} /\ NmtOK(n0.mode)) => r.n = FreshFrom(n0)
Do(l) == LET a == Apply(n, l) IN
         /\ n' = a.r.n
         /\ gh' = [c09 |-> C09Ok(n, l, a.r), c10 |-> C10Ok(n, l, a.r), c11 |-> C11Ok(n, l, a.r), c20 |-> C20Ok(n, l, a.r)]
         /\ Rec(StepRec(a.ev, a.r.out))
Init == /\ n = Bootup(Node0(HbInit, HcInit)).n
        /\ hist = <<>> /\ prev = <<>> /\ gh = [c09 |-> TRUE, c10 |-> TRUE, c11 |-> TRUE, c20 |-> TRUE]
Next == \E l \in Letters : Do(l)
\* the event counter only matters up to saturation: bound it in exhaustive runs
\* (long heartbeat times - 32767 / 32768 / 65535 ms - are in the C10 alphabet for the value range of 1017h: their countdown is
\* followed for the first ticks only)
Bound == /\ \A k \in 1..Len(n.hc) : n.hc[k].ev <= EvCap
         /\ (n.hbRem <= 8 \/ n.hbRem >= n.hbT - 2)
         /\ \A k \in 1..Len(n.hc) : (n.hc[k].rem <= 8 \/ n.hc[k].rem >= n.hc[k].time - 2)
InvC20 == gh.c20
InvC09 == gh.c09
InvC10 == gh.c10
InvC11 == gh.c11

RECURSIVE RunLetters(_, _, _)
RunLetters(nn, ls, acc) ==
  IF ls = <<>> THEN acc
  ELSE LET a == Apply(nn, Head(ls)) IN RunLetters(a.r.n, Tail(ls), Append(acc, StepRec(a.ev, a.r.out)))
Probe == RunLetters(n, ProbeLetters, <<>>)
Cfg == [n |-> NodeId, hb |-> HbInit, hc |-> HcInit]
EmitEdge == hist = <<>> \/ PrintT(<<"EDGE", ToJson([c |-> Cfg, s |-> prev, e |-> hist[Len(hist)], d |-> View, p |-> Probe])>>)
EmitWalk == Len(hist) < WalkLen \/ (PrintT(<<"WALK", ToJson([c |-> Cfg, h |-> hist, p |-> Probe])>>) /\ FALSE)
\* saturation of the event counter (C11): scenarios far outside the exhaustive bound EvCap, evaluated on the reference from the
\* initial state: first heartbeat of PumpNode, k periods of silence (PumpTime ticks each), two reads of the counter
PumpLetters(node, time, k) == << <<"hb", node, 5>> >> \o [i \in 1..(time * k) |-> <<"tick">>] \o << <<"hbev", node>>, <<"hbev", node>>, <<"hblast", node>> >>
EmitPump(node, time, counts) == \A k \in counts : PrintT(<<"BEH", ToJson([c |-> Cfg, h |-> RunLetters(n, PumpLetters(node, time, k), <<>>)])>>)
\* VIEW of the model-checking configurations: TLC evaluates invariants only on states it has not seen before, and "seen" is
\* decided on the VIEW; a step verdict kept in a ghost variable must therefore be part of it, or a violating edge INTO A KNOWN
\* STATE would be discarded unexamined (the generation configurations keep the plain View: the verdict is not behaviour)
ViewM == <<View, gh>>
=============================================================================
