/* vh.c -- generic replay harness for the TLA+ conformance checks.
 *
 * Reads behaviours from stdin, replays each one against the real stack (built
 * from /repo's working tree, ASan+UBSan) in a forked child and prints one
 * observation line per event.  See /verif/DESIGN.md section 5.1.
 *
 * Input grammar (one command per line, integers decimal):
 *   B <id>                     begin behaviour <id> (everything up to the next B)
 *   set <name> <v>             nodeid | baud | freq | tmrn | dictmax | lssload | lssbaud | lssnode
 *   obj <idx> <sub> <flags> <type> <args...>   append a dictionary entry (see mkobj)
 *   emcy <reg> <code>          append an EMCY table entry
 *   para <g> <off> <size> <type> <value> <hasdef> <ram bytes...>   define parameter group g
 *   init | start | stop | restart
 *   rx <id> <dlc> <b0..b7> | poll0 | pollerr
 *   tick | svc | proc
 *   ... API calls, see run_cmd()
 * Output: "B <id>" then per event "S <item>; <item>; ..." and finally
 *   "E <id> <status>"  (status: ok | exit<N> | sig<N>)
 */
#include "co_core.h"
#include <stdio.h>
#include <stdlib.h>
#include <string.h>
#include <unistd.h>
#include <signal.h>
#include <setjmp.h>
#include <sys/wait.h>

/* ------------------------------------------------------------------ output */
static int first_item;
static long item_count;   /* items printed for the current event: a callback / frame flood ends the behaviour (exit 79) instead of filling the disk */
static void item_begin(void) {
    if (++item_count > 20000) { fputs("; itemflood\n", stdout); fflush(stdout); _exit(79); }
    if (!first_item) fputs("; ", stdout); first_item = 0; }
#define ITEM(...) do { item_begin(); printf(__VA_ARGS__); } while (0)
static void put_le(uint32_t v, int n) { for (int i = 0; i < n; i++) printf(" %u", (unsigned)((v >> (8 * i)) & 0xFF)); }

/* ----------------------------------------------------------------- drivers */
static CO_IF_FRM rxq; static int rx_mode;          /* 0 none, 1 frame, -1 error */
static int can_fail;                               /* number of sends that fail  */
static int tx_count;
static void cInit(void) {}
static void cEnable(uint32_t b) { item_begin(); printf("drv enable"); put_le(b, 4); }
static int16_t cRead(CO_IF_FRM *f) {
    if (rx_mode < 0) { rx_mode = 0; return -1; }
    if (rx_mode == 0) return 0;
    *f = rxq; rx_mode = 0; return (int16_t)sizeof(*f);
}
static CO_IF_FRM last_tx;     /* last frame the node transmitted (the built-in SDO server of `csrv' answers it) */
static uint8_t srv_mux[3];    /* multiplexer of the last initiate request the node transmitted as SDO client */
static int16_t cSend(CO_IF_FRM *f) {
    last_tx = *f;
    if (f->Data[0] == 0x40 || (f->Data[0] & 0xE0) == 0x20) memcpy(srv_mux, f->Data + 1, 3);
    if (can_fail > 0) { can_fail--; ITEM("txfail %u", (unsigned)f->Identifier); return -1; }
    if (++tx_count > 4096) { ITEM("txflood"); fflush(stdout); _exit(78); }
    item_begin(); printf("tx %u %u", (unsigned)f->Identifier, f->DLC);
    for (int i = 0; i < f->DLC && i < 8; i++) printf(" %u", f->Data[i]);
    return (int16_t)sizeof(*f);
}
static void cReset(void) { ITEM("drv canreset"); }
static void cClose(void) { ITEM("drv canclose"); }
static const CO_IF_CAN_DRV can_drv = { cInit, cEnable, cRead, cSend, cReset, cClose };

static uint32_t hwcnt;
static void tInit(uint32_t f) { (void)f; hwcnt = 0; }
static void tReload(uint32_t r) { hwcnt = r; }
static uint32_t tDelay(void) { return hwcnt; }
static void tStop(void) { hwcnt = 0; }
static void tStart(void) {}
static uint8_t tUpdate(void) { if (hwcnt > 0) { hwcnt--; if (hwcnt == 0) return 1; } return 0; }
static const CO_IF_TIMER_DRV tmr_drv = { tInit, tReload, tDelay, tStop, tStart, tUpdate };

#define NVM_SIZE 4096
static uint8_t nvm_mem[NVM_SIZE];
static int nvm_call, nvm_fault_at = -1, nvm_fault_short;
static void nInit(void) {}
static uint32_t nvm_cnt(uint32_t n) {
    nvm_call++;
    if (nvm_fault_at >= 0 && nvm_call == nvm_fault_at) { nvm_fault_at = -1; return n > (uint32_t)nvm_fault_short ? n - nvm_fault_short : 0; }
    return n;
}
static uint32_t nRead(uint32_t s, uint8_t *b, uint32_t n) {
    uint32_t k = nvm_cnt(n);
    item_begin(); printf("nvmrd %u %u %u", s, n, k);
    for (uint32_t i = 0; i < k && s + i < NVM_SIZE; i++) b[i] = nvm_mem[s + i];
    return k;
}
static uint32_t nWrite(uint32_t s, uint8_t *b, uint32_t n) {
    uint32_t k = nvm_cnt(n);
    item_begin(); printf("nvmwr %u %u %u", s, n, k);
    for (uint32_t i = 0; i < k && s + i < NVM_SIZE; i++) { nvm_mem[s + i] = b[i]; printf(" %u", b[i]); }
    return k;
}
static const CO_IF_NVM_DRV nvm_drv = { nInit, nRead, nWrite };
static CO_IF_DRV drv = { &can_drv, &tmr_drv, &nvm_drv };

/* ------------------------------------------------------------- dictionary */
enum { T_U8, T_U16, T_U32, T_DOM, T_STR, T_HBPROD, T_HBCONS, T_SDOID, T_PDOID, T_PDOTYPE,
       T_PDONUM, T_PDOMAP, T_PDOEVT, T_SYNCID, T_SYNCCYC, T_EMCYHIST, T_EMCYID,
       T_PSTORE, T_PRESTORE, T_TEST, T_PARAU8, T_NTYPES };
#define MAXOBJ 600
#define MAXBLK 700
typedef struct { uint16_t idx; uint8_t sub; uint8_t *p; uint32_t len; uint8_t *shadow; uint8_t *init; int direct; int slot; } BLK;
static BLK blk[MAXBLK]; static int nblk;
static CO_OBJ *od; static int nod; static int dictmax = 0;
static struct { int type; void *aux; } odx[MAXOBJ];
static CO_NODE node; static CO_NODE_SPEC spec;
static CO_TMR_MEM *tmr_mem; static uint8_t *sdo_buf;
static CO_EMCY_TBL *emcy_tbl; static int nemcy;
static int autopool;
static int cfg_nodeid = 1, cfg_freq = 1000, cfg_tmrn = 16; static uint32_t cfg_baud = 250000;
static int lss_load_ok = 0; static uint32_t lss_baud; static uint8_t lss_node; static int lss_store_fail;
#define MAXPARA 8
static CO_PARA para[MAXPARA]; static int npara; static uint8_t *para_def[MAXPARA];
static int paradef_ret;

/* test type with counters and application abort code */
static int test_init_cnt[MAXOBJ]; static uint32_t test_abort; static int test_wr_err;
static uint32_t TTSize(CO_OBJ *o, CO_NODE *n, uint32_t w) { (void)o; (void)n; (void)w; return 4; }
/* an entry whose stored first byte is EEh reports an initialisation error (after counting the call) */
static CO_ERR TTInit(CO_OBJ *o, CO_NODE *n) { (void)n; test_init_cnt[o - od]++; return (o->Data && ((uint8_t *)o->Data)[0] == 0xEE) ? CO_ERR_TYPE_INIT : CO_ERR_NONE; }
static CO_ERR TTRead(CO_OBJ *o, CO_NODE *n, void *b, uint32_t s) { (void)n; if (s != 4) return CO_ERR_BAD_ARG; memcpy(b, (void *)o->Data, 4); return CO_ERR_NONE; }
static CO_ERR TTWrite(CO_OBJ *o, CO_NODE *n, void *b, uint32_t s) {
    if (s != 4) return CO_ERR_BAD_ARG;
    if (test_abort) { COObjTypeUserSDOAbort(o, n, test_abort); return CO_ERR_TYPE_WR; }
    if (test_wr_err) return (CO_ERR)test_wr_err;
    memcpy((void *)o->Data, b, 4); return CO_ERR_NONE;
}
static const CO_OBJ_TYPE TTest = { TTSize, TTInit, TTRead, TTWrite, 0 };

static uint8_t *exact(uint32_t n) { uint8_t *p = malloc(n ? n : 1); if (!p) abort(); memset(p, 0, n ? n : 1); return p; }
static void add_blk(uint16_t idx, uint8_t sub, uint8_t *p, uint32_t len, int direct, int slot) {
    if (nblk >= MAXBLK) { fprintf(stderr, "too many blocks\n"); exit(2); }
    BLK *b = &blk[nblk++]; b->idx = idx; b->sub = sub; b->p = p; b->len = len; b->direct = direct; b->slot = slot;
    b->shadow = exact(len); b->init = exact(len);
    memcpy(b->shadow, p, len); memcpy(b->init, p, len);
}
static int type_width(int t, int sub) {
    switch (t) {
    case T_U8: case T_PDOTYPE: case T_PDONUM: return 1;
    case T_U16: case T_HBPROD: case T_PDOEVT: return 2;
    case T_EMCYHIST: return sub == 0 ? 1 : 4;
    case T_HBCONS: return sub == 0 ? 1 : 4;
    case T_PSTORE: case T_PRESTORE: return sub == 0 ? 1 : 4;
    default: return 4;
    }
}
static const CO_OBJ_TYPE *type_ptr(int t) {
    switch (t) {
    case T_U8: case T_PARAU8: return CO_TUNSIGNED8; case T_U16: return CO_TUNSIGNED16; case T_U32: return CO_TUNSIGNED32;
    case T_DOM: return CO_TDOMAIN; case T_STR: return CO_TSTRING; case T_HBPROD: return CO_THB_PROD;
    case T_HBCONS: return CO_THB_CONS; case T_SDOID: return CO_TSDO_ID; case T_PDOID: return CO_TPDO_ID;
    case T_PDOTYPE: return CO_TPDO_TYPE; case T_PDONUM: return CO_TPDO_NUM; case T_PDOMAP: return CO_TPDO_MAP;
    case T_PDOEVT: return CO_TPDO_EVENT; case T_SYNCID: return CO_TSYNC_ID; case T_SYNCCYC: return CO_TSYNC_CYCLE;
    case T_EMCYHIST: return CO_TEMCY_HIST; case T_EMCYID: return CO_TEMCY_ID; case T_PSTORE: return CO_TPARA_STORE;
    case T_PRESTORE: return CO_TPARA_RESTORE; case T_TEST: return &TTest;
    }
    return 0;
}
static void ensure_od(void) {
    if (!od) { if (!dictmax) dictmax = MAXOBJ; od = (CO_OBJ *)exact(sizeof(CO_OBJ) * (dictmax + 1)); }
}
/* obj idx sub flags type args...  */
static void mkobj(int idx, int sub, int flags, int type, int *a, int na) {
    ensure_od();
    if (nod >= dictmax) { fprintf(stderr, "dictionary full\n"); exit(2); }
    CO_OBJ *o = &od[nod]; int slot = nod++;
    o->Key = CO_KEY(idx, sub, flags); o->Type = type_ptr(type); odx[slot].type = type; odx[slot].aux = 0;
    int direct = (flags & CO_OBJ_D_____) != 0;
    if (type == T_DOM) {
        uint32_t size = na > 0 ? (uint32_t)a[0] : 0;
        CO_OBJ_DOM *d = (CO_OBJ_DOM *)exact(sizeof *d); d->Size = size; d->Offset = 0; d->Start = exact(size);
        for (uint32_t i = 0; i < size; i++) d->Start[i] = (int)(i + 1) < na ? (uint8_t)a[i + 1] : (uint8_t)(i * 13 + 5);
        o->Data = (CO_DATA)d; odx[slot].aux = d; add_blk(idx, sub, d->Start, size, 0, slot);
    } else if (type == T_STR) {
        CO_OBJ_STR *s = (CO_OBJ_STR *)exact(sizeof *s); s->Offset = 0; s->Start = exact(na + 1);
        for (int i = 0; i < na; i++) s->Start[i] = (uint8_t)a[i];
        s->Start[na] = 0; o->Data = (CO_DATA)s; odx[slot].aux = s; add_blk(idx, sub, s->Start, na, 0, slot);
    } else if (type == T_HBCONS && sub > 0) {
        CO_HBCONS *h = (CO_HBCONS *)exact(sizeof *h); memset(h, 0, sizeof *h);
        h->Time = na > 0 ? (uint16_t)a[0] : 0; h->NodeId = na > 1 ? (uint8_t)a[1] : 0;   /* (zero-initialised like a static CO_HBCONS of an application: Tmr = 0, not -1) */
        o->Data = (CO_DATA)h; odx[slot].aux = h;
    } else if ((type == T_PSTORE || type == T_PRESTORE) && sub > 0) {
        int g = na > 0 ? a[0] : 0; o->Data = (CO_DATA)&para[g]; odx[slot].aux = &para[g];
    } else if (type == T_PARAU8) {          /* u8 living inside a parameter group's RAM: args g off */
        o->Data = (CO_DATA)(para[a[0]].Start + a[1]);
    } else {
        int w = type_width(type, sub); uint32_t v = 0;
        for (int i = 0; i < na && i < 4; i++) v |= ((uint32_t)(a[i] & 0xFF)) << (8 * i);
        if (direct) { o->Data = (CO_DATA)v; add_blk(idx, sub, (uint8_t *)&o->Data, w, 1, slot); }
        else { uint8_t *p = exact(w); memcpy(p, &v, w); o->Data = (CO_DATA)p; add_blk(idx, sub, p, w, 0, slot); }
    }
}
static void report_changes(void) {
    for (int i = 0; i < nblk; i++) {
        BLK *b = &blk[i];
        if (memcmp(b->p, b->shadow, b->len) != 0) {
            item_begin(); printf("chg %u %u", b->idx, b->sub);
            for (uint32_t k = 0; k < b->len; k++) printf(" %u", b->p[k]);
            memcpy(b->shadow, b->p, b->len);
        }
    }
}

/* -------------------------------------------------------------- callbacks */
static jmp_buf fatal_jmp; static int fatal_armed;
void CONodeFatalError(void) { ITEM("cb fatal"); puts(""); fflush(stdout); _exit(79); }
static int inj[64], ninj, injpos; static int in_service;
static void inject_here(void) {
    if (injpos < ninj) { int n = inj[injpos++]; while (n-- > 0) { in_service++; int r = COTmrService(&node.Tmr); in_service--; ITEM("isvc %d", r); } }
}
static int lock_depth;
void COTmrLock(void) { if (lock_depth == 0) inject_here(); lock_depth++; }
void COTmrUnlock(void) { lock_depth--; if (lock_depth == 0) inject_here(); }
void CONmtModeChange(CO_NMT *n, CO_MODE m) { (void)n; ITEM("cb modechg %d", (int)m); }
void CONmtResetRequest(CO_NMT *n, CO_NMT_RESET r) { (void)n; ITEM("cb resetreq %d", (int)r); }
void CONmtHbConsEvent(CO_NMT *n, uint8_t id) { (void)n; ITEM("cb hbevent %u", id); }
void CONmtHbConsChange(CO_NMT *n, uint8_t id, CO_MODE m) { (void)n; ITEM("cb hbchange %u %d", id, (int)m); }
CO_ERR COLssLoad(uint32_t *b, uint8_t *n) { ITEM("cb lssload"); if (lss_load_ok) { *b = lss_baud; *n = lss_node; } return CO_ERR_NONE; }
CO_ERR COLssStore(uint32_t b, uint8_t n) {
    item_begin(); printf("cb lssstore"); put_le(b, 4); printf(" %u", n);
    if (lss_store_fail) return CO_ERR_LSS_STORE;
    lss_load_ok = 1; lss_baud = b; lss_node = n; return CO_ERR_NONE;
}
void COIfCanReceive(CO_IF_FRM *f) { ITEM("cb canrx %u", (unsigned)f->Identifier); }
void COPdoTransmit(CO_IF_FRM *f) { ITEM("cb pdotx %u", (unsigned)f->Identifier); }
static int pdorx_ret;
int16_t COPdoReceive(CO_IF_FRM *f) { ITEM("cb pdorx %u", (unsigned)f->Identifier); return (int16_t)pdorx_ret; }
void COPdoSyncUpdate(CO_RPDO *p) { ITEM("cb syncupd %d", (int)(p - node.RPdo)); }
int16_t COParaDefault(CO_PARA *pg) {
    int g = (int)(pg - para); ITEM("cb paradef %d", g);
    if (paradef_ret == 0 && para_def[g]) memcpy(pg->Start, para_def[g], pg->Size);
    return (int16_t)paradef_ret;
}
/* a request issued from inside the completion callback (armed by `csdo_chain'): kind 1 upload / 2 download */
static int chain_kind, chain_size, chain_tmt, chain_base, chain_idx, chain_sub;
static uint32_t srv_size, srv_pos;    /* built-in SDO server (csrv): size of the object it holds, upload position */
static uint8_t *ubuf[4]; static uint32_t ubuf_len[4];
static void csdo_cb(CO_CSDO *c, uint16_t idx, uint8_t sub, uint32_t code) {
    item_begin(); printf("cb csdo %d %u %u", (int)(c - node.CSdo), idx, sub); put_le(code, 4);
    if (chain_kind) {
        int k = chain_kind; chain_kind = 0;
        uint32_t n = (uint32_t)chain_size; uint8_t *nb = exact(n);
        for (uint32_t i = 0; i < n; i++) nb[i] = k == 1 ? 0xCC : (uint8_t)(chain_base + i);
        CO_ERR e = k == 1 ? COCSdoRequestUpload(c, CO_DEV(chain_idx, chain_sub), nb, n, csdo_cb, (uint32_t)chain_tmt)
                          : COCSdoRequestDownload(c, CO_DEV(chain_idx, chain_sub), nb, n, csdo_cb, (uint32_t)chain_tmt);
        if (e) { free(nb); ITEM("chain err %d", (int)e); }
        else { free(ubuf[0]); ubuf[0] = nb; ubuf_len[0] = n; srv_size = n; srv_pos = 0; ITEM("chain ok"); }
    }
}

/* application timers: handle -> id */
#define MAXH 64
static int h_id[MAXH]; static int h_kind[MAXH]; static int h_arg[MAXH];
static void app_fire(void *p) {
    int h = (int)(intptr_t)p; ITEM("fire %d", h);
    if (h_kind[h] == 1) {              /* create a one-shot with handle h_arg, 1 tick */
        int g = h_arg[h]; h_kind[g] = 0; h_id[g] = COTmrCreate(&node.Tmr, 1, 0, app_fire, (void *)(intptr_t)g);
        ITEM("cret %d %d", g, h_id[g] >= 0 ? 0 : -1);
    } else if (h_kind[h] == 2) {       /* delete the action with handle h_arg */
        int g = h_arg[h]; int r = COTmrDelete(&node.Tmr, (int16_t)h_id[g]); ITEM("dret %d %d", g, r);
    }
}

/* ---------------------------------------------------------- projections */
static int len_time(CO_TMR_TIME *t) { int n = 0; while (t && n < 10000) { n++; t = t->Next; } return n; }
static int len_act(CO_TMR_ACTION *a) { int n = 0; while (a && n < 10000) { n++; a = a->Next; } return n; }
static void pool_item(void) {
    int nu = len_time(node.Tmr.Use), ne = len_time(node.Tmr.Elapsed), nf = len_time(node.Tmr.Free), na = len_act(node.Tmr.Acts);
    int ua = 0; for (CO_TMR_TIME *t = node.Tmr.Use; t; t = t->Next) ua += len_act(t->Action);
    int ea = 0; for (CO_TMR_TIME *t = node.Tmr.Elapsed; t; t = t->Next) ea += len_act(t->Action);
    ITEM("pool %d %d %d %d %d %d %u", nf, nu, ne, na, ua, ea, (unsigned)hwcnt);
    ITEM("acts %d", na);                 /* free action slots */
    ITEM("cons %d", (nf + nu + ne == (int)node.Tmr.Max) && (na + ua + ea == (int)node.Tmr.Max));
}

/* --------------------------------------------------------------- commands */

static void node_init(void) {
    ensure_od();
    od[nod].Key = 0; od[nod].Type = 0; od[nod].Data = 0;
    if (!tmr_mem) tmr_mem = (CO_TMR_MEM *)exact(sizeof(CO_TMR_MEM) * cfg_tmrn);
    if (!sdo_buf) { sdo_buf = exact(CO_SDO_BUF_BYTE * CO_SSDO_N); memset(sdo_buf, 0xA5, CO_SDO_BUF_BYTE * CO_SSDO_N); }
    memset(&node, 0, sizeof node);
    spec.NodeId = (uint8_t)cfg_nodeid; spec.Baudrate = cfg_baud; spec.Dict = od; spec.DictLen = (uint16_t)(dictmax < nod + 1 ? dictmax : nod + 1);
    spec.EmcyCode = emcy_tbl; spec.TmrMem = tmr_mem; spec.TmrNum = (uint16_t)cfg_tmrn; spec.TmrFreq = (uint32_t)cfg_freq;
    spec.Drv = &drv; spec.SdoBuf = sdo_buf;
    for (int i = 0; i < MAXH; i++) h_id[i] = -1;
    CONodeInit(&node, &spec);
}
static void restart(void) {
    /* power cycle: RAM back to initial image, NVM kept */
    for (int i = 0; i < nblk; i++) { memcpy(blk[i].p, blk[i].init, blk[i].len); memcpy(blk[i].shadow, blk[i].init, blk[i].len); }
    for (int i = 0; i < nod; i++) {
        if (odx[i].type == T_HBCONS && odx[i].aux) { CO_HBCONS *h = odx[i].aux; h->Next = 0; h->Tmr = 0; h->Event = 0; h->State = CO_INVALID; }
        if (odx[i].type == T_DOM) ((CO_OBJ_DOM *)odx[i].aux)->Offset = 0;
        if (odx[i].type == T_STR) ((CO_OBJ_STR *)odx[i].aux)->Offset = 0;
    }
    hwcnt = 0;
    node_init();
}
static uint32_t le_arg(int *a, int n) { uint32_t v = 0; for (int i = 0; i < n && i < 4; i++) v |= ((uint32_t)(a[i] & 0xFF)) << (8 * i); return v; }

static int run_cmd(char *op, int *a, int na) {
#define IS(s) (strcmp(op, s) == 0)
    if (IS("set")) return 0; /* handled by caller */
    if (IS("init")) { node_init(); }
    else if (IS("start")) { CONodeStart(&node); }
    else if (IS("stop")) { CONodeStop(&node); }
    else if (IS("restart")) { restart(); CONodeStart(&node); }
    else if (IS("rx")) {
        memset(&rxq, 0, sizeof rxq); rxq.Identifier = (uint32_t)a[0]; rxq.DLC = (uint8_t)a[1];
        for (int i = 0; i < 8 && i + 2 < na; i++) rxq.Data[i] = (uint8_t)a[i + 2];
        rx_mode = 1; CONodeProcess(&node);
    }
    else if (IS("poll0")) { rx_mode = 0; CONodeProcess(&node); }
    else if (IS("pollerr")) { rx_mode = -1; CONodeProcess(&node); }
    else if (IS("tick")) { int n = na > 0 ? a[0] : 1; while (n-- > 0) { COTmrService(&node.Tmr); COTmrProcess(&node.Tmr); } }
    else if (IS("svc")) { int r = COTmrService(&node.Tmr); ITEM("ret %d", r); }
    else if (IS("proc")) { COTmrProcess(&node.Tmr); }
    else if (IS("tmr_create")) {      /* handle start cycle [kind arg] */
        int h = a[0]; h_kind[h] = na > 3 ? a[3] : 0; h_arg[h] = na > 4 ? a[4] : 0;
        int r = COTmrCreate(&node.Tmr, (uint32_t)a[1], (uint32_t)a[2], app_fire, (void *)(intptr_t)h);
        if (r >= 0) for (int g = 0; g < MAXH; g++) if (h_id[g] == r) h_id[g] = -1;   /* real id reused: older handle forgotten */
        h_id[h] = r; ITEM("ret %d", r >= 0 ? 0 : -1);
    }
    else if (IS("tmr_delete")) {      /* handle, or -1/-2/-3 for invalid ids */
        int id = a[0] >= 0 ? h_id[a[0]] : (a[0] == -1 ? -1 : (a[0] == -2 ? cfg_tmrn : cfg_tmrn + 1));
        if (a[0] >= 0 && id < 0) { ITEM("ret -1"); }      /* never created: nothing to address */
        else { int r = COTmrDelete(&node.Tmr, (int16_t)id); ITEM("ret %d", r); }
    }
    else if (IS("pool")) { pool_item(); }
    else if (IS("get_ticks")) { uint32_t r = COTmrGetTicks(&node.Tmr, (uint16_t)a[0], (uint32_t)a[1]); item_begin(); printf("ret"); put_le(r, 4); }
    else if (IS("ticks_mono")) {      /* unit t0 t1 : conversion is monotonic on [t0,t1] */
        int ok = 1; uint32_t prev = COTmrGetTicks(&node.Tmr, (uint16_t)a[1], (uint32_t)a[0]);
        for (int t = a[1] + 1; t <= a[2]; t++) { uint32_t r = COTmrGetTicks(&node.Tmr, (uint16_t)t, (uint32_t)a[0]); if (r < prev) ok = 0; prev = r; }
        ITEM("ret %d", ok);
    }
    else if (IS("min_time")) { ITEM("ret %u", COTmrGetMinTime(&node.Tmr, (uint32_t)a[0])); }
    else if (IS("setfreq")) { node.Tmr.Freq = (uint32_t)a[0]; }
    else if (IS("nmt_set")) { CONmtSetMode(&node.Nmt, (CO_MODE)a[0]); }
    else if (IS("nmt_reset")) { CONmtReset(&node.Nmt, (CO_NMT_RESET)a[0]); }
    else if (IS("nmt_bootup")) { CONmtBootup(&node.Nmt); }
    else if (IS("nmt_get")) { ITEM("ret %d", (int)CONmtGetMode(&node.Nmt)); }
    else if (IS("get_err")) { ITEM("ret %d", (int)CONodeGetErr(&node)); }
    else if (IS("emcy_set")) {
        CO_EMCY_USR u; memset(&u, 0, sizeof u);
        if (na >= 8) { u.Hist = (uint16_t)(a[1] | (a[2] << 8)); for (int i = 0; i < 5; i++) u.Emcy[i] = (uint8_t)a[3 + i]; COEmcySet(&node.Emcy, (uint8_t)a[0], &u); }
        else COEmcySet(&node.Emcy, (uint8_t)a[0], 0);
    }
    else if (IS("emcy_clr")) { COEmcyClr(&node.Emcy, (uint8_t)a[0]); }
    else if (IS("emcy_reset")) { COEmcyReset(&node.Emcy, (uint8_t)a[0]); }
    else if (IS("emcy_get")) { ITEM("ret %d", COEmcyGet(&node.Emcy, (uint8_t)a[0])); }
    else if (IS("emcy_cnt")) { ITEM("ret %d", COEmcyCnt(&node.Emcy)); }
    else if (IS("tpdo_trig")) { COTPdoTrigPdo(node.TPdo, (uint16_t)a[0]); }
    else if (IS("obj_trig")) { CO_OBJ *o = CODictFind(&node.Dict, CO_DEV(a[0], a[1])); COTPdoTrigObj(node.TPdo, o); }
    else if (IS("hb_events")) { ITEM("ret %d", CONmtGetHbEvents(&node.Nmt, (uint8_t)a[0])); }
    else if (IS("hb_last")) { ITEM("ret %d", (int)CONmtLastHbState(&node.Nmt, (uint8_t)a[0])); }
    else if (IS("find")) { CO_OBJ *o = CODictFind(&node.Dict, CO_KEY(a[0], a[1], na > 2 ? a[2] : 0)); ITEM("ret %d", o ? (int)(o - od) : -1); }
    else if (IS("rd8")) { uint8_t v = 0xCC; CO_ERR e = CODictRdByte(&node.Dict, CO_DEV(a[0], a[1]), &v); if (e) ITEM("err %d", (int)e); else ITEM("ret %u", v); }
    else if (IS("rd16")) { uint16_t v = 0xCCCC; CO_ERR e = CODictRdWord(&node.Dict, CO_DEV(a[0], a[1]), &v); if (e) ITEM("err %d", (int)e); else { item_begin(); printf("ret"); put_le(v, 2); } }
    else if (IS("rd32")) { uint32_t v = 0xCCCCCCCC; CO_ERR e = CODictRdLong(&node.Dict, CO_DEV(a[0], a[1]), &v); if (e) ITEM("err %d", (int)e); else { item_begin(); printf("ret"); put_le(v, 4); } }
    else if (IS("wr8")) { CO_ERR e = CODictWrByte(&node.Dict, CO_DEV(a[0], a[1]), (uint8_t)a[2]); if (e) ITEM("err %d", (int)e); else ITEM("ok"); }
    else if (IS("wr16")) { CO_ERR e = CODictWrWord(&node.Dict, CO_DEV(a[0], a[1]), (uint16_t)le_arg(a + 2, 2)); if (e) ITEM("err %d", (int)e); else ITEM("ok"); }
    else if (IS("wr32")) { CO_ERR e = CODictWrLong(&node.Dict, CO_DEV(a[0], a[1]), le_arg(a + 2, 4)); if (e) ITEM("err %d", (int)e); else ITEM("ok"); }
    else if (IS("rdbuf")) {           /* idx sub len : buffer of exactly len bytes, prefilled 0xCC */
        uint32_t n = (uint32_t)a[2]; uint8_t *b = exact(n); memset(b, 0xCC, n ? n : 1);
        CO_ERR e = CODictRdBuffer(&node.Dict, CO_DEV(a[0], a[1]), b, n);
        item_begin(); printf("buf %d", (int)e); for (uint32_t i = 0; i < n; i++) printf(" %u", b[i]); free(b);
    }
    else if (IS("wrbuf")) {           /* idx sub len base : bytes (base+i)&0xFF */
        uint32_t n = (uint32_t)a[2]; uint8_t *b = exact(n); for (uint32_t i = 0; i < n; i++) b[i] = (uint8_t)(a[3] + i);
        CO_ERR e = CODictWrBuffer(&node.Dict, CO_DEV(a[0], a[1]), b, n); if (e) ITEM("err %d", (int)e); else ITEM("ok"); free(b);
    }
    /* continued buffer access (COObjRdBufCont / COObjWrBufCont): goes on at the position the last access of the object left */
    else if (IS("rdbufc")) {
        uint32_t n = (uint32_t)a[2]; uint8_t *b = exact(n); memset(b, 0xCC, n ? n : 1);
        CO_OBJ *o = CODictFind(&node.Dict, CO_DEV(a[0], a[1])); CO_ERR e = o ? COObjRdBufCont(o, &node, b, n) : CO_ERR_OBJ_NOT_FOUND;
        item_begin(); printf("buf %d", (int)e); for (uint32_t i = 0; i < n; i++) printf(" %u", b[i]); free(b);
    }
    else if (IS("wrbufc")) {
        uint32_t n = (uint32_t)a[2]; uint8_t *b = exact(n); for (uint32_t i = 0; i < n; i++) b[i] = (uint8_t)(a[3] + i);
        CO_OBJ *o = CODictFind(&node.Dict, CO_DEV(a[0], a[1])); CO_ERR e = o ? COObjWrBufCont(o, &node, b, n) : CO_ERR_OBJ_NOT_FOUND;
        if (e) ITEM("err %d", (int)e); else ITEM("ok"); free(b);
    }
    else if (IS("dump")) {            /* idx sub : object bytes (raw storage) */
        int found = 0;
        for (int i = 0; i < nblk; i++) if (blk[i].idx == a[0] && blk[i].sub == a[1]) {
            item_begin(); printf("obj %d %d", a[0], a[1]); for (uint32_t k = 0; k < blk[i].len; k++) printf(" %u", blk[i].p[k]); found = 1; break; }
        if (!found) ITEM("obj %d %d -1", a[0], a[1]);
    }
    else if (IS("poke")) {            /* idx sub off byte : modify storage directly (application RAM write) */
        for (int i = 0; i < nblk; i++) if (blk[i].idx == a[0] && blk[i].sub == a[1] && (uint32_t)a[2] < blk[i].len) { blk[i].p[a[2]] = (uint8_t)a[3]; blk[i].shadow[a[2]] = (uint8_t)a[3]; }
    }
    else if (IS("testcnt")) { CO_OBJ *o = CODictFind(&node.Dict, CO_DEV(a[0], a[1])); ITEM("ret %d", o ? test_init_cnt[o - od] : -1); }
    else if (IS("initcnts")) { item_begin(); printf("cnts"); for (int i = 0; i < nod; i++) if (odx[i].type == T_TEST) printf(" %d", test_init_cnt[i]); }
    else if (IS("testabort")) { test_abort = le_arg(a, 4); }
    else if (IS("testwrerr")) { test_wr_err = a[0]; }
    else if (IS("fault_can")) { can_fail = a[0]; }
    else if (IS("fault_nvm")) { nvm_fault_at = nvm_call + a[0]; nvm_fault_short = a[1]; }
    else if (IS("pdorx_ret")) { pdorx_ret = a[0]; }
    else if (IS("paradef_ret")) { paradef_ret = a[0]; }
    else if (IS("lss_store_fail")) { lss_store_fail = a[0]; }
    else if (IS("para_dump")) { int g = a[0]; item_begin(); printf("pram %d", g); for (uint32_t i = 0; i < para[g].Size; i++) printf(" %u", para[g].Start[i]); }
    else if (IS("para_poke")) { para[a[0]].Start[a[1]] = (uint8_t)a[2]; }
    else if (IS("nvm_dump")) { item_begin(); printf("nvm"); for (int i = 0; i < a[1]; i++) printf(" %u", nvm_mem[a[0] + i]); }
    else if (IS("nvm_poke")) { nvm_mem[a[0]] = (uint8_t)a[1]; }
#if USE_CSDO
    else if (IS("csdo_up") || IS("csdo_down")) {   /* num idx sub size timeout [bufslot base] */
        CO_CSDO *c = COCSdoFind(&node, (uint8_t)a[0]); int s = na > 5 ? a[5] : 0; uint32_t n = (uint32_t)a[3];
        if (!c) { ITEM("err -1"); }
        else {
            uint8_t *nb = exact(n);
            int base = na > 6 ? a[6] : 0; for (uint32_t i = 0; i < n; i++) nb[i] = IS("csdo_up") ? 0xCC : (uint8_t)(base + i);
            CO_ERR e = IS("csdo_up") ? COCSdoRequestUpload(c, CO_DEV(a[1], a[2]), nb, n, csdo_cb, (uint32_t)a[4])
                                     : COCSdoRequestDownload(c, CO_DEV(a[1], a[2]), nb, n, csdo_cb, (uint32_t)a[4]);
            if (e) { free(nb); ITEM("err %d", (int)e); }      /* refused: the buffer of a running transfer stays */
            else { free(ubuf[s]); ubuf[s] = nb; ubuf_len[s] = n; srv_size = n; srv_pos = 0; ITEM("ok"); }
        }
    }
    /* a request to be issued from inside the next completion callback: kind(1 up / 2 down) idx sub size timeout base */
    else if (IS("csdo_chain")) { chain_kind = a[0]; chain_idx = a[1]; chain_sub = a[2]; chain_size = a[3]; chain_tmt = a[4]; chain_base = na > 5 ? a[5] : 0; }
    else if (IS("csrv_size")) { srv_size = (uint32_t)a[0]; }
    /* built-in SDO server: answers the LAST frame the client transmitted.  csrv rxid kind   kind: 0 conforming, 1 abort (matching
     * multiplexer), 2 wrong toggle, 3 unknown command, 4 announced size + 1, 5 wrong multiplexer, 6 abort with a foreign multiplexer, 7 a command no class knows (04h);
     * object bytes of uploads: byte i = (3 i + 1) mod 256.  The injected frame is printed as item `inj'. */
    else if (IS("csrv")) {
        uint8_t *q = last_tx.Data, f[8] = {0}; int kind = a[1]; uint8_t c = q[0];
        #define SB(i) ((uint8_t)(((i) * 3u + 1u) & 0xFF))
        if (c == 0x40) {
            f[1] = q[1]; f[2] = q[2]; f[3] = q[3]; srv_pos = 0;
            if (srv_size <= 4 && kind != 4) { f[0] = (uint8_t)(0x43 | ((4 - srv_size) << 2)); for (uint32_t i = 0; i < srv_size; i++) f[4 + i] = SB(i); }
            else { uint32_t z = srv_size + (kind == 4 ? 1 : 0); f[0] = 0x41; f[4] = (uint8_t)z; f[5] = (uint8_t)(z >> 8); f[6] = (uint8_t)(z >> 16); f[7] = (uint8_t)(z >> 24); }
        } else if ((c & 0xEF) == 0x60) {
            uint32_t rest = srv_size > srv_pos ? srv_size - srv_pos : 0, k = rest < 7 ? rest : 7;
            f[0] = (uint8_t)((c & 0x10) | ((7 - k) << 1) | (rest <= 7 ? 1 : 0)); for (uint32_t i = 0; i < k; i++) f[1 + i] = SB(srv_pos + i);
            srv_pos += k;
        } else if ((c & 0xE0) == 0x20) { f[0] = 0x60; f[1] = q[1]; f[2] = q[2]; f[3] = q[3]; }
        else if ((c & 0xE0) == 0x00) { f[0] = (uint8_t)(0x20 | (c & 0x10)); }
        else { f[0] = 0xE0; }
        if (kind == 1) { memset(f, 0, 8); f[0] = 0x80; f[1] = srv_mux[0]; f[2] = srv_mux[1]; f[3] = srv_mux[2]; f[6] = 2; f[7] = 6; }
        if (kind == 2) f[0] ^= 0x10;
        if (kind == 3) { memset(f, 0, 8); f[0] = 0xE0; }
        if (kind == 5) { f[1] = 9; f[2] = 9; f[3] = 9; }
        if (kind == 6) { memset(f, 0, 8); f[0] = 0x80; f[1] = 1; f[2] = 2; f[3] = 3; f[6] = 2; f[7] = 6; }
        if (kind == 7) { f[0] = 0x04; f[1] = 1; f[2] = 2; f[3] = 3; f[4] = 4; }     /* a frame no transfer class knows */
        item_begin(); printf("inj"); for (int i = 0; i < 8; i++) printf(" %u", f[i]);
        memset(&rxq, 0, sizeof rxq); rxq.Identifier = (uint32_t)a[0]; rxq.DLC = 8; memcpy(rxq.Data, f, 8);
        rx_mode = 1; CONodeProcess(&node);
    }
    else if (IS("csdo_find")) { CO_CSDO *c = COCSdoFind(&node, (uint8_t)a[0]); ITEM("ret %d", c ? 0 : -1); }
    else if (IS("csdo_state")) { ITEM("ret %d", (int)node.CSdo[a[0]].State); }
    else if (IS("ubuf")) { int s = a[0]; item_begin(); printf("ubuf %d", s); for (uint32_t i = 0; i < ubuf_len[s]; i++) printf(" %u", ubuf[s][i]); }
#endif
    else if (IS("proj")) {
        item_begin(); printf("proj mode %d allowed %u err %d", (int)node.Nmt.Mode, node.Nmt.Allowed, (int)node.Error);
        for (int i = 0; i < CO_SSDO_N; i++) printf(" sdo%d %d %d %u %u %u", i, node.Sdo[i].Obj != 0, (int)node.Sdo[i].Blk.State, (unsigned)node.Sdo[i].Buf.Num, (unsigned)node.Sdo[i].Seg.Size, (unsigned)node.Sdo[i].Seg.Num);
#if USE_LSS
        printf(" lss %u %u %u", node.Lss.Mode, node.Lss.Step, node.Lss.Flags);
#endif
    }
    else { fprintf(stderr, "unknown command '%s'\n", op); exit(2); }
    return 0;
}

/* one behaviour = array of lines */
static char **lines; static int nlines, caplines;
/* watchdog per behaviour: 10 s; once behaviours of this run have hung (the tree under test loops) the following ones get 3 s, then
 * 1 s - a healthy behaviour takes milliseconds, and a tree that hangs thousands of behaviours must not cost hours */
static unsigned watchdog_s = 10; static int nhang, nbad;
static void on_alarm(int s) { (void)s; static const char m[] = "; hang\n"; if (write(1, m, sizeof m - 1)) {} _exit(80); }

void __sanitizer_set_death_callback(void (*cb)(void));
static void on_death(void) { puts(" ; died"); fflush(stdout); }
static void run_behaviour(void) {
    __sanitizer_set_death_callback(on_death);
    signal(SIGALRM, on_alarm);
    alarm(watchdog_s);
    for (int li = 0; li < nlines; li++) {
        char *ln = lines[li]; char op[32]; int a[1100]; int na = 0;
        char *p = ln; int k = 0;
        while (*p && *p != ' ' && *p != '\n' && k < 31) op[k++] = *p++;
        op[k] = 0;
        while (*p) { while (*p == ' ') p++; if (!*p || *p == '\n') break; char *e; long v = strtol(p, &e, 10); if (e == p) break; if (na < 1100) a[na++] = (int)v; p = e; }
        if (op[0] == 0 || op[0] == '#') continue;
        if (strcmp(op, "set") == 0) {
            char name[32]; int v = 0; long long lv = 0; sscanf(ln, "set %31s %lld", name, &lv); v = (int)lv;
            if (!strcmp(name, "nodeid")) cfg_nodeid = v; else if (!strcmp(name, "baud")) cfg_baud = (uint32_t)lv;
            else if (!strcmp(name, "freq")) cfg_freq = v; else if (!strcmp(name, "tmrn")) cfg_tmrn = v;
            else if (!strcmp(name, "dictmax")) dictmax = v; else if (!strcmp(name, "autopool")) autopool = v; else if (!strcmp(name, "lssload")) lss_load_ok = v;
            else if (!strcmp(name, "lssbaud")) lss_baud = (uint32_t)lv; else if (!strcmp(name, "lssnode")) lss_node = (uint8_t)v;
            else { fprintf(stderr, "unknown setting %s\n", name); exit(2); }
            continue;
        }
        if (strcmp(op, "inject") == 0) { ninj = na < 64 ? na : 64; for (int i = 0; i < ninj; i++) inj[i] = a[i]; injpos = 0; continue; }
        if (strcmp(op, "obj") == 0) { mkobj(a[0], a[1], a[2], a[3], a + 4, na - 4); continue; }
        if (strcmp(op, "emcy") == 0) {
            emcy_tbl = realloc(emcy_tbl, sizeof(CO_EMCY_TBL) * (nemcy + 1)); emcy_tbl[nemcy].Reg = (uint8_t)a[0]; emcy_tbl[nemcy].Code = (uint16_t)a[1]; nemcy++; continue;
        }
        if (strcmp(op, "para") == 0) {   /* g off size type value hasdef ram... */
            int g = a[0]; CO_PARA *pg = &para[g]; if (g >= npara) npara = g + 1;
            pg->Offset = (uint32_t)a[1]; pg->Size = (uint32_t)a[2]; pg->Type = (CO_NMT_RESET)a[3]; pg->Value = (uint32_t)a[4];
            pg->Start = exact(pg->Size); para_def[g] = exact(pg->Size); pg->Ident = 0;
            for (uint32_t i = 0; i < pg->Size; i++) { pg->Start[i] = (int)(6 + i) < na ? (uint8_t)a[6 + i] : 0; para_def[g][i] = pg->Start[i]; }
            pg->Default = a[5] ? para_def[g] : 0;
            add_blk((uint16_t)(0xFF00 + g), 0, pg->Start, pg->Size, 0, -1);
            continue;
        }
        if (strcmp(op, "paraalias") == 0) {   /* g parent ramoff nvmoff size type value hasdef : group inside the parent's RAM */
            int g = a[0]; CO_PARA *pg = &para[g]; CO_PARA *pp = &para[a[1]]; if (g >= npara) npara = g + 1;
            pg->Offset = (uint32_t)a[3]; pg->Size = (uint32_t)a[4]; pg->Type = (CO_NMT_RESET)a[5]; pg->Value = (uint32_t)a[6];
            pg->Start = pp->Start + a[2]; para_def[g] = para_def[a[1]] + a[2]; pg->Default = a[7] ? para_def[g] : 0; pg->Ident = 0;
            continue;
        }
        first_item = 1; item_count = 0; fputs("S ", stdout);
        tx_count = 0;
        run_cmd(op, a, na);
        ninj = 0; injpos = 0;
        if (autopool) pool_item();
        report_changes();
        puts(""); fflush(stdout);
    }
    (void)fatal_jmp; (void)fatal_armed;
}

int main(int argc, char **argv) {
    int nofork = argc > 1 && !strcmp(argv[1], "--nofork");
    char *ln = 0; size_t cap = 0; long cur = -1; ssize_t n;
    setvbuf(stdout, 0, _IOFBF, 1 << 16);
    for (;;) {
        n = getline(&ln, &cap, stdin);
        int eof = n < 0; int isB = !eof && ln[0] == 'B' && ln[1] == ' ';
        if ((eof || isB) && cur >= 0) {
            printf("B %ld\n", cur); fflush(stdout);
            /* the tree under test hangs or dies over and over: the verdict is in, the rest of this chunk is not run */
            if (!nofork && (nhang >= 25 || nbad >= 500)) {
                printf("E %ld skipped\n", cur); fflush(stdout);
                for (int i = 0; i < nlines; i++) free(lines[i]);
                nlines = 0;
                if (eof) break;
                if (isB) { cur = atol(ln + 2); }
                continue;
            }
            if (nofork) { run_behaviour(); printf("E %ld ok\n", cur); exit(0); }
            pid_t pid = fork();
            if (pid == 0) { run_behaviour(); fflush(stdout); _exit(0); }
            int st = 0; waitpid(pid, &st, 0);
            if (WIFEXITED(st) && WEXITSTATUS(st) == 80) { nhang++; watchdog_s = nhang < 3 ? 10 : nhang < 10 ? 3 : 1; }
            if (!(WIFEXITED(st) && WEXITSTATUS(st) == 0)) nbad++;
            if (WIFEXITED(st) && WEXITSTATUS(st) == 0) printf("E %ld ok\n", cur);
            else if (WIFEXITED(st)) { printf("\nE %ld exit%d\n", cur, WEXITSTATUS(st)); fprintf(stderr, "== behaviour %ld exit %d\n", cur, WEXITSTATUS(st)); }
            else { printf("\nE %ld sig%d\n", cur, WTERMSIG(st)); fprintf(stderr, "== behaviour %ld signal %d\n", cur, WTERMSIG(st)); }
            fflush(stdout);
            for (int i = 0; i < nlines; i++) free(lines[i]);
            nlines = 0;
        }
        if (eof) break;
        if (isB) { cur = atol(ln + 2); continue; }
        if (cur < 0) continue;
        if (nlines == caplines) { caplines = caplines ? caplines * 2 : 64; lines = realloc(lines, sizeof(char *) * caplines); }
        lines[nlines++] = strdup(ln);
    }
    return 0;
}
