/* C07/C08 direction code -> spec: PRNG driver of the real timer manager; tick interrupts are injected at
 * COTmrLock entry, COTmrUnlock exit and inside action callbacks (at most 3 per task-level call: a bounded
 * interrupt rate, otherwise cyclic timers with period 1 keep COTmrProcess busy for ever); every event is
 * logged as one ndjson line with the scalar state (hw counter, list lengths) for CoTmrPreTrace.tla */
#include "co_core.h"
#include <stdio.h>
#include <stdlib.h>
#include <string.h>
static uint32_t cnt;
static void tInit(uint32_t f){(void)f;cnt=0;} static void tRel(uint32_t r){cnt=r;} static uint32_t tDel(void){return cnt;}
static void tStop(void){cnt=0;} static void tStart(void){} static uint8_t tUpd(void){ if(cnt>0){cnt--; if(!cnt) return 1;} return 0;}
static const CO_IF_TIMER_DRV tmrdrv={tInit,tRel,tDel,tStop,tStart,tUpd};
static CO_IF_DRV drv={0,&tmrdrv,0};
void CONodeFatalError(void){ printf("FATAL\n"); exit(3);}
static CO_NODE node; static CO_TMR_MEM *tm; static int inject=0;
static int len_t(CO_TMR_TIME*x){int n=0;while(x){n++;x=x->Next;}return n;}
static unsigned long rs; static unsigned rnd(unsigned n){ rs=rs*6364136223846793005UL+1442695040888963407UL; return (unsigned)(rs>>33)%n; }
static void proj(void){ printf(",\"hw\":%u,\"nu\":%d,\"ne\":%d,\"nf\":%d}\n",cnt,len_t(node.Tmr.Use),len_t(node.Tmr.Elapsed),len_t(node.Tmr.Free)); }
static int budget; static long lines;
static void isr(void){ while(inject && budget>0 && rnd(3)==0){ budget--; if(++lines>2000000) exit(0); int r=COTmrService(&node.Tmr); printf("{\"e\":\"service\",\"a\":0,\"b\":0,\"ret\":%d",r); proj(); } }
void COTmrLock(void){ isr(); }
void COTmrUnlock(void){ if(inject){ printf("{\"e\":\"cs\",\"a\":0,\"b\":0,\"ret\":0"); proj(); } isr(); }
/* the callback parameter of a new action = its id (the action is looked up by its Id field: which slot carries which id is the
   implementation's business) */
static void set_para(int id){ CO_TMR_MEM*m=(CO_TMR_MEM*)node.Tmr.APool; for(unsigned i=0;i<node.Tmr.Max;i++) if(m[i].Act.Id==(uint16_t)id){ m[i].Act.Para=(void*)(intptr_t)id; return; } }
static void cb(void*p){ printf("{\"e\":\"cb\",\"a\":%d,\"b\":0,\"ret\":0",(int)(intptr_t)p); proj(); isr(); }
int main(int argc,char**argv){ int max=atoi(argv[1]); int nops=atoi(argv[2]); rs=atol(argv[3]);
 tm=malloc(sizeof(CO_TMR_MEM)*max); memset(&node,0,sizeof node); node.If.Drv=&drv; node.If.Node=&node; node.Nmt.Tmr=-1;
 COTmrInit(&node.Tmr,&node,tm,max,1000); inject=1;
 for(int i=0;i<nops;i++){ unsigned k=rnd(10); budget=3; int ret=0; int a=0,b=0;
  if(k<3){ a=rnd(4); b=rnd(3)?0:rnd(3); printf("{\"e\":\"call_create\",\"a\":%d,\"b\":%d,\"ret\":0",a,b); proj(); ret=COTmrCreate(&node.Tmr,a,b,cb,0); if(ret>=0) set_para(ret); printf("{\"e\":\"ret_create\",\"a\":%d,\"b\":%d,\"ret\":%d",a,b,ret); proj(); }
  else if(k<5){ a=(int)rnd(max+2)-1; printf("{\"e\":\"call_delete\",\"a\":%d,\"b\":0,\"ret\":0",a); proj(); ret=COTmrDelete(&node.Tmr,a); printf("{\"e\":\"ret_delete\",\"a\":%d,\"b\":0,\"ret\":%d",a,ret); proj(); }
  else if(k<8){ ret=COTmrService(&node.Tmr); printf("{\"e\":\"service\",\"a\":0,\"b\":0,\"ret\":%d",ret); proj(); }
  else { printf("{\"e\":\"call_process\",\"a\":0,\"b\":0,\"ret\":0"); proj(); COTmrProcess(&node.Tmr); printf("{\"e\":\"ret_process\",\"a\":0,\"b\":0,\"ret\":0"); proj(); }
 } return 0; }
