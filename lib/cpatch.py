"""cpatch -- exact-text replacement in a C source, preserving CRLF line endings"""
import sys
def rep(path, old, new, cnt=1):
    s = open(path, newline='').read()
    crlf = '\r\n' in s
    if crlf:
        old = old.replace('\r\n', '\n').replace('\n', '\r\n')
        new = new.replace('\r\n', '\n').replace('\n', '\r\n')
    assert s.count(old) == cnt, (path, s.count(old), old[:80])
    open(path, 'w', newline='').write(s.replace(old, new))
