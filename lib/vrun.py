"""vrun -- per-check context: collects what a run covered, classifies disagreements
against known_findings.json, writes evidence/<id>.json and decides the exit code."""
import os, sys, json, time, hashlib
import vlib
from vlib import Infra


class StopCheck(Exception):
    pass


class Ctx:
    def __init__(self, pid, tier, seed, level="model_checking"):
        self.pid, self.tier, self.seed, self.level = pid, tier, seed, level
        self.t0 = time.time()
        self.states = 0
        self.transitions = 0
        self.mc_runs = []
        self.replayed = 0
        self.traces_validated = 0
        self.steps = 0
        self.nonempty = 0
        self.samples = []
        self.assumptions = []
        self.violations = []      # (Mismatch, behaviour, preamble, variant)
        self.extra = {}
        self.rule = ""
        self.distinct = set()
        self.exes = {}

    # ---- M: model checking of the specification itself
    def mc(self, module, cfg, workers=None, timeout=1100, heap="8g", **kw):
        r = vlib.run_tlc(module, cfg, workers=workers or vlib.NCPU, timeout=timeout, heap=heap, **kw)
        if r["rc"] != 0 or r["violation"]:
            raise Infra("TLC run %s/%s failed or found a counterexample in the SPEC (rc=%s):\n%s\n(see %s)"
                        % (module, cfg, r["rc"], r["tail"], r["out"]))
        self.states += r["distinct"]
        self.transitions += r["states"]
        self.mc_runs.append(dict(module=module, cfg=cfg, distinct=r["distinct"], generated=r["states"],
                                 depth=r["depth"], wall_s=round(r["wall"], 1)))
        return r

    def mc_parts(self, module, cfg, nparts, timeout=3000, heap="3g"):
        """scenario enumeration split over nparts TLC processes (constants Part / NParts in the cfg)"""
        from concurrent.futures import ThreadPoolExecutor
        base = open(os.path.join(vlib.SPEC, cfg)).read()
        cdir = os.path.join(vlib.OUT, "tlc")
        os.makedirs(cdir, exist_ok=True)

        def one(k):
            cp = os.path.join(cdir, "%s_part%d.cfg" % (cfg[:-4], k))
            with open(cp, "w") as f:
                f.write(base.replace("Part = 0", "Part = %d" % k).replace("NParts = 1", "NParts = %d" % nparts))
            return vlib.run_tlc(module, cp, workers=1, timeout=timeout, heap=heap,
                                outfile=os.path.join(cdir, "%s_%s_part%d.out" % (module, cfg[:-4], k)))

        with ThreadPoolExecutor(nparts) as ex:
            rs = list(ex.map(one, range(nparts)))
        for r in rs:
            if r["rc"] != 0 or r["violation"]:
                raise Infra("TLC run %s/%s failed or the SPEC violates the property (rc=%s):\n%s\n(see %s)" % (module, cfg, r["rc"], r["tail"], r["out"]))
        self.states += sum(r["distinct"] for r in rs)
        self.transitions += sum(r["states"] for r in rs)
        self.mc_runs.append(dict(module=module, cfg=cfg, parts=nparts, wall_s=round(max(r["wall"] for r in rs), 1)))
        return [r["out"] for r in rs]

    # ---- A: generation
    def gen_edges(self, module, cfg, timeout=1100, heap="8g", limit=None, **kw):
        r = vlib.run_tlc(module, cfg, workers=1, timeout=timeout, heap=heap, **kw)
        if r["rc"] != 0 or r["violation"]:
            raise Infra("TLC generation run %s/%s failed (rc=%s):\n%s\n(see %s)" % (module, cfg, r["rc"], r["tail"], r["out"]))
        behs = vlib.edges_to_behaviours(r["out"], limit=limit)
        self.mc_runs.append(dict(module=module, cfg=cfg, mode="edge-generation", distinct=r["distinct"],
                                 generated=r["states"], behaviours=len(behs), wall_s=round(r["wall"], 1)))
        if not self.states:
            self.states, self.transitions = r["distinct"], r["states"]
        os.remove(r["out"])
        return behs

    def gen_walks(self, module, cfg, num, depth, workers=4, timeout=600, heap="4g", **kw):
        r = vlib.run_tlc(module, cfg, workers=workers, simulate=max(1, num // workers), depth=depth,
                         seed=self.seed, timeout=timeout, heap=heap, **kw)
        if r["rc"] not in (0,) or r["violation"]:
            raise Infra("TLC simulation %s/%s failed (rc=%s):\n%s\n(see %s)" % (module, cfg, r["rc"], r["tail"], r["out"]))
        behs = vlib.walks_to_behaviours(r["out"])
        self.mc_runs.append(dict(module=module, cfg=cfg, mode="simulation", walks=len(behs), depth=depth,
                                 wall_s=round(r["wall"], 1)))
        os.remove(r["out"])
        return behs

    def exe(self, name="default", defines=()):
        if name not in self.exes:
            self.exes[name] = vlib.build_harness(name + "_" + self.pid, defines)
        return self.exes[name]

    # ---- A: replay + compare
    def replay(self, behs, preamble, observe, variant="default", defines=(), ordered=True, label="", safety_only=False):
        if not behs:
            return
        exe = self.exe(variant, defines)
        t1 = time.time()
        res = vlib.replay(exe, behs, preamble, "%s_%s" % (self.pid, label or variant))
        mism, stats = vlib.compare(behs, res, observe, ordered=ordered, safety_only=safety_only)
        self.replayed += stats["behaviours"]
        self.mc_runs.append(dict(mode="replay", label=label or variant, behaviours=stats["behaviours"], events=stats["steps"],
                                 agree=stats["agree"], wall_s=round(time.time() - t1, 1)))
        self.steps += stats["steps"]
        self.nonempty += stats["nonempty_pred"]
        for k in ("suspended", "free_steps"):
            if stats[k]:
                self.extra[k] = self.extra.get(k, 0) + stats[k]
        for b in behs:
            # distinct non-trivial = distinct (event under test + its prediction) with a non-empty prediction
            if b.steps:
                st = b.steps[min(b.nprefix, len(b.steps) - 1)]
                if st.get("x"):
                    self.distinct.add(hashlib.md5(json.dumps([b.cfg, b.steps[:b.nprefix + 1]], sort_keys=True).encode()).digest()[:8])
        if len(self.samples) < 3 and behs:
            for b in (behs[len(behs) // 2], behs[-1]):
                self.samples.append(dict(label=label or variant, cfg=b.cfg, steps=b.steps[:40]))
        for m in mism:
            self.violations.append((m, behs[m.bi], preamble, variant, label))
        if stats["skipped"]:
            self.extra["behaviours_not_run_after_repeated_hangs_or_crashes"] = self.extra.get("behaviours_not_run_after_repeated_hangs_or_crashes", 0) + stats["skipped"]
        self.checkpoint()
        return mism, stats

    def unlisted(self):
        kf_path = os.path.join(vlib.VERIF, "known_findings.json")
        known = []
        if os.path.exists(kf_path):
            known = [k for k in json.load(open(kf_path)).get("findings", []) if k.get("property") == self.pid and k.get("status") == "known"]
        return [v for v in self.violations if not match_known(known, v[0], v[1], v[3])]

    def checkpoint(self):
        """fail fast: once a stage has produced a disagreement that no known finding explains, the verdict of the run is decided;
        the remaining stages are not run (VERIF_FAILFAST=0 runs everything)"""
        if os.environ.get("VERIF_FAILFAST", "1") != "0" and self.unlisted():
            self.extra["stopped_after_first_violating_stage"] = True
            raise StopCheck()

    # ---- finish: known findings, evidence, exit code
    def finish(self):
        kf_path = os.path.join(vlib.VERIF, "known_findings.json")
        known = []
        if os.path.exists(kf_path):
            known = [k for k in json.load(open(kf_path)).get("findings", []) if k.get("property") == self.pid and k.get("status") == "known"]
        rdir = os.path.join(vlib.OUT, "replay_cases", self.pid)
        import shutil
        shutil.rmtree(rdir, ignore_errors=True)
        os.makedirs(rdir, exist_ok=True)
        hit = {}
        unlisted = []
        for (m, b, pre, variant, label) in self.violations:
            k = match_known(known, m, b, variant)
            if k:
                hit.setdefault(k["id"], [k, 0])[1] += 1
            else:
                unlisted.append((m, b, pre, variant, label))
        for kid, (k, n) in sorted(hit.items()):
            print("KNOWN-FINDING: property=%s %s (%d behaviours; id=%s)" % (self.pid, k["what"], n, kid))
        shown = 0
        for (m, b, pre, variant, label) in unlisted:
            h = hashlib.md5(json.dumps([b.cfg, b.steps], sort_keys=True).encode()).hexdigest()[:12]
            path = os.path.join(rdir, h + ".json")
            if shown >= 40:
                shown += 1
                continue
            with open(path, "w") as f:
                json.dump(dict(property=self.pid, variant=variant, label=label, cfg=b.cfg, script=vlib.script_of(b, pre),
                               steps=b.steps, disagreement=m.sig()), f, indent=1)
            if shown < 5:
                print("VIOLATION property=%s replay=%s" % (self.pid, path))
                print("  #", m.kind, "at step", m.step, "event", str(m.event)[:200], "\n  # predicted", str(m.pred)[:300], "\n  # observed ", str(m.obs)[:300])
            shown += 1
        if shown > 5:
            print("  # ... %d more unlisted disagreements (%d total)" % (shown - 5, shown))
        cov = dict(states=self.states, transitions=self.transitions,
                   traces_validated_against_impl=self.replayed + self.traces_validated,
                   samples=self.samples[:4] or [dict(note="no behaviour generated")],
                   evaluations=self.steps, distinct_nontrivial=len(self.distinct),
                   rule=self.rule or "behaviours generated by TLC from the specification (edge cover x probe, random walks); "
                                     "distinct_nontrivial counts distinct (configuration, prefix, event) cases whose predicted observation is non-empty",
                   tlc_runs=self.mc_runs, lockstep_events=self.steps, events_with_nonempty_prediction=self.nonempty,
                   known_findings_hit={k: v[1] for k, v in hit.items()})
        cov.update(self.extra)
        ev = dict(property_id=self.pid, tier=self.tier, seed=self.seed, level=self.level, coverage=cov,
                  assumptions=self.assumptions, wall_s=round(time.time() - self.t0, 1), violations=len(unlisted))
        # evidence/ describes runs against /repo itself; a run against another tree (VERIF_REPO: scratch copies with a seeded
        # change, snapshots of background runs) leaves its record under out/
        edir = os.path.join(vlib.VERIF, "evidence") if os.path.realpath(vlib.REPO) == "/repo" else os.path.join(vlib.OUT, "evidence_other_tree")
        os.makedirs(edir, exist_ok=True)
        with open(os.path.join(edir, self.pid + ".json"), "w") as f:
            json.dump(ev, f, indent=1)
        print("%s %s: %d TLC states, %d behaviours replayed, %d lockstep events, %d unlisted disagreements, %.0f s"
              % (self.pid, self.tier, self.states, self.replayed + self.traces_validated, self.steps, len(unlisted), time.time() - self.t0))
        return 1 if unlisted else 0


def match_known(known, m, b, variant):
    """A known finding names the event op, the disagreement kind and predicates over
    event / prediction / observation, so a different failure is still reported."""
    for k in known:
        mt = k.get("match", {})
        if "kind" in mt and not m.kind.startswith(mt["kind"]):
            continue
        if "event_op" in mt and (not m.event or m.event[0] != mt["event_op"]):
            continue
        if "event_prefix" in mt and vlib.flat(m.event)[:len(mt["event_prefix"])] != mt["event_prefix"]:
            continue
        if "variant" in mt and variant != mt["variant"]:
            continue
        if "observed_has" in mt and not any(vlib.item_match(mt["observed_has"], o) for o in m.obs):
            continue
        if "observed_lacks" in mt and any(vlib.item_match(mt["observed_lacks"], o) for o in m.obs):
            continue
        if "predicted_has" in mt and not any(vlib.item_match(mt["predicted_has"], p) for p in m.pred):
            continue
        if "history_has_op" in mt and not any(st["e"] and st["e"][0] == mt["history_has_op"] for st in b.steps[:m.step + 1]):
            continue
        return k
    return None
