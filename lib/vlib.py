"""vlib -- shared machinery of the TLA+ conformance checks (see DESIGN.md).

build_harness()   compile /repo's working tree + harness/vh.c with ASan/UBSan
run_tlc()         run TLC (model checking, edge generation, simulation)
edges_to_behaviours()  rebuild shortest prefixes from per-edge emission
replay()          run behaviours through the harness in parallel
compare()         predicted vs observed, step by step
"""
import threading, os, sys, re, json, subprocess, time, hashlib, shutil, glob, collections
from concurrent.futures import ThreadPoolExecutor

VERIF = os.path.dirname(os.path.dirname(os.path.abspath(__file__)))
REPO = os.environ.get("VERIF_REPO", "/repo")
OUT = os.path.join(VERIF, "out")
SPEC = os.path.join(VERIF, "spec")
NCPU = int(os.environ.get("VERIF_CPUS", "16"))
GUARD = "CO_STACK_VERIF"


def _die_with_parent():
    """children (TLC, harness) must not outlive a killed check"""
    try:
        import ctypes, signal
        ctypes.CDLL("libc.so.6").prctl(1, signal.SIGKILL)      # PR_SET_PDEATHSIG
    except Exception:
        pass


class Infra(Exception):
    """infrastructure failure (exit 2), never a property violation"""


def sh(cmd, **kw):
    return subprocess.run(cmd, shell=isinstance(cmd, str), capture_output=True, text=True, **kw)


# ------------------------------------------------------------------ build
def stack_sources():
    src = os.path.join(REPO, "src")
    out = []
    for root, _, files in os.walk(src):
        if "/driver" in root[len(src):]:
            continue
        for f in files:
            if f.endswith(".c"):
                out.append(os.path.join(root, f))
    return sorted(out)


def include_dirs():
    src = os.path.join(REPO, "src")
    dirs = set()
    for root, _, files in os.walk(src):
        if "/driver" in root[len(src):]:
            continue
        if any(f.endswith(".h") for f in files):
            dirs.add(root)
    return sorted(dirs)


def build_harness(name="default", defines=(), harness="vh.c", san=True, cov=False):
    """Build the harness against /repo's current working tree. Returns the binary path."""
    bdir = os.path.join(OUT, "build", name)
    shutil.rmtree(bdir, ignore_errors=True)
    os.makedirs(bdir)
    cflags = ["clang", "-std=gnu99", "-g", "-O1", "-fno-omit-frame-pointer", "-D" + GUARD, "-w"]
    if san:
        cflags += ["-fsanitize=address,undefined", "-fno-sanitize=alignment", "-fno-sanitize-recover=undefined"]
    if cov:
        cflags += ["-fprofile-instr-generate", "-fcoverage-mapping"]
    cflags += ["-D" + d for d in defines]
    cflags += ["-I" + d for d in include_dirs()]
    srcs = stack_sources() + [os.path.join(VERIF, "harness", harness)]
    objs = []
    # The binary is always built from the CURRENT content of /repo's working tree: the key below is a hash over every source
    # and header file of the stack, the harness and the complete command line; an identical build made by an earlier check of
    # the same session is reused instead of compiling the same bytes again (a changed tree has a different key).
    h = hashlib.sha256(" ".join(cflags).encode())
    hdrs = []
    for d in include_dirs():
        hdrs += sorted(os.path.join(d, f) for f in os.listdir(d) if f.endswith(".h"))
    for f in srcs + hdrs:
        h.update(f.encode())
        with open(f, "rb") as fh:
            h.update(fh.read())
    cdir = os.path.join(OUT, "buildcache", h.hexdigest()[:32])
    exe = os.path.join(bdir, "vh")
    if os.path.exists(os.path.join(cdir, "vh")):
        shutil.copy2(os.path.join(cdir, "vh"), exe)
        return exe

    def cc(s):
        o = os.path.join(bdir, hashlib.md5(s.encode()).hexdigest()[:8] + "_" + os.path.basename(s)[:-2] + ".o")
        r = sh(cflags + ["-c", s, "-o", o])
        if r.returncode != 0:
            raise Infra("compile error in %s:\n%s" % (s, r.stderr[-3000:]))
        return o

    with ThreadPoolExecutor(NCPU) as ex:
        objs = list(ex.map(cc, srcs))
    r = sh(cflags + objs + ["-o", exe])
    if r.returncode != 0:
        raise Infra("link error:\n" + r.stderr[-3000:])
    try:
        os.makedirs(cdir + ".tmp%d" % os.getpid())
        shutil.copy2(exe, os.path.join(cdir + ".tmp%d" % os.getpid(), "vh"))
        os.rename(cdir + ".tmp%d" % os.getpid(), cdir)
    except OSError:
        shutil.rmtree(cdir + ".tmp%d" % os.getpid(), ignore_errors=True)
    # keep the cache small: the 40 most recent builds
    try:
        ent = sorted((os.path.getmtime(os.path.join(OUT, "buildcache", d)), d) for d in os.listdir(os.path.join(OUT, "buildcache")))
        for _, d in ent[:-40]:
            shutil.rmtree(os.path.join(OUT, "buildcache", d), ignore_errors=True)
    except OSError:
        pass
    return exe


# -------------------------------------------------------------------- TLC
TLC_CP = "/opt/veriftools/tla/tla2tools.jar:/opt/veriftools/tla/CommunityModules-deps.jar"


_tlc_seq = 0
_tlc_lock = threading.Lock()


def run_tlc(module, cfg, workers=None, simulate=None, depth=None, seed=None, timeout=1100,
            coverage=False, env=None, heap="8g", outfile=None, deadlock=False, extra=()):
    """Run TLC on spec/<module>.tla with spec/<cfg>. Returns dict(stdout_path, states, distinct, ok, ...).
    Output is streamed to a file (emission can be large)."""
    os.makedirs(os.path.join(OUT, "tlc"), exist_ok=True)
    global _tlc_seq
    with _tlc_lock:
        _tlc_seq += 1
        seq = _tlc_seq
    tag = "%s_%s_%d_%d" % (module, os.path.basename(cfg).replace(".cfg", ""), os.getpid(), seq)
    meta = os.path.join(OUT, "tlc", "meta_" + tag)
    shutil.rmtree(meta, ignore_errors=True)
    outp = outfile or os.path.join(OUT, "tlc", tag + ".out")
    cmd = ["java", "-XX:+UseParallelGC", "-Xss1g", "-Xmx" + heap, "-cp", TLC_CP, "tlc2.TLC",
           "-metadir", meta, "-config", cfg, "-workers", str(workers or 1)]
    if simulate:
        cmd += ["-simulate", "num=%d" % simulate]
    if depth:
        cmd += ["-depth", str(depth)]
    if seed is not None:
        cmd += ["-seed", str(seed)]
    if coverage:
        cmd += ["-coverage", "1"]
    if not deadlock:
        cmd += ["-deadlock"]
    cmd += list(extra) + [module + ".tla"]
    e = dict(os.environ)
    if env:
        e.update(env)
    t0 = time.time()
    with open(outp, "w") as fo:
        try:
            r = subprocess.run(cmd, cwd=SPEC, stdout=fo, stderr=subprocess.STDOUT, env=e, timeout=timeout, preexec_fn=_die_with_parent)
            rc = r.returncode
        except subprocess.TimeoutExpired:
            rc = -9
    shutil.rmtree(meta, ignore_errors=True)
    res = dict(out=outp, rc=rc, wall=time.time() - t0, states=0, distinct=0, depth=0, violation=None, cmd=" ".join(cmd))
    tail = sh("grep -a -E 'states generated|Error:|is violated|depth of the complete|Finished in|Parsing or semantic|was violated|Deadlock reached|Postcondition' %s | tail -20" % outp).stdout
    m = re.findall(r"(\d+) states generated, (\d+) distinct states found", tail)
    if m:
        res["states"], res["distinct"] = int(m[-1][0]), int(m[-1][1])
    m = re.search(r"depth of the complete state graph search is (\d+)", tail)
    if m:
        res["depth"] = int(m.group(1))
    if "Error:" in tail or "violated" in tail or "Parsing or semantic" in tail or "Postcondition" in tail:
        res["violation"] = tail
    res["tail"] = tail
    return res


def tlc_lines(outp, tag):
    """yield the JSON payloads of lines  <<"TAG", "...json...">>  printed by PrintT"""
    pre = '<<"%s", "' % tag
    with open(outp, errors="replace") as f:
        for ln in f:
            if ln.startswith(pre):
                s = ln.rstrip("\n")
                s = s[len(pre):-3]
                # undo TLA+ string escaping
                s = s.replace('\\"', '"').replace("\\\\", "\\")
                yield s


def sany(module):
    r = sh(["java", "-cp", TLC_CP, "tla2sany.SANY", module + ".tla"], cwd=SPEC)
    ok = r.returncode == 0 and "error" not in r.stdout.lower().replace("errors: 0", "")
    return ok, r.stdout + r.stderr


# --------------------------------------------------------- behaviours
class Beh:
    __slots__ = ("cfg", "steps", "nprefix", "tag")

    def __init__(self, cfg, steps, nprefix=0, tag=""):
        self.cfg = cfg        # model configuration (JSON value) used by the profile's preamble
        self.steps = steps    # list of dict(e=[op, ints...], x=[[kind, ints...], ...])
        self.nprefix = nprefix
        self.tag = tag


def edges_to_behaviours(outp, tag="EDGE", limit=None):
    """Per-edge records [c,s,e,d,p] -> behaviours prefix(s) + e + p.
    The first edge printed with a given d is TLC's discovery edge (BFS, -workers 1),
    so following parents reproduces the concrete state TLC computed e and p from."""
    parent = {}
    sid = {}

    def key(s):
        # s is the JSON image of the model's VIEW; sort_keys makes it canonical
        # (TLC prints record fields in construction order, so raw text is not)
        return hashlib.md5(json.dumps(s, sort_keys=True).encode()).digest()[:10]

    edges = []
    for js in tlc_lines(outp, tag):
        r = json.loads(js)
        s, d = key(r["s"]), key(r["d"])
        if s not in parent:
            parent[s] = None
        if "h" in r:      # a multi-step excursion from s (pumping); not a discovery edge
            edges.append((s, list(r["h"]), r.get("p", []), r.get("c")))
            continue
        if d not in parent:
            parent[d] = (s, r["e"])
        edges.append((s, [r["e"]], r.get("p", []), r.get("c")))
        if limit and len(edges) >= limit:
            break
    pref = {}

    def prefix(s):
        path = []
        cur = s
        stack = []
        while cur is not None and cur not in pref:
            stack.append(cur)
            p = parent[cur]
            cur = p[0] if p else None
        base = pref[cur] if cur is not None else []
        for n in reversed(stack):
            p = parent[n]
            base = base + [p[1]] if p else []
            pref[n] = base
        return pref[s]

    sys.setrecursionlimit(10000)
    out = []
    for s, e, p, c in edges:
        pre = prefix(s)
        out.append(Beh(c, pre + e + list(p), len(pre)))
    return out


def records_to_behaviours(outp, tag="BEH"):
    """complete behaviours printed as [c, h] records (scenario enumeration)"""
    out = []
    for js in tlc_lines(outp, tag):
        r = json.loads(js)
        out.append(Beh(r.get("c"), list(r["h"]), 0))
    return out


def walks_to_behaviours(outp, tag="WALK"):
    out = []
    for js in tlc_lines(outp, tag):
        r = json.loads(js)
        out.append(Beh(r.get("c"), list(r["h"]) + list(r.get("p", [])), len(r["h"])))
    return out


def flat(e):
    out = []
    for x in e:
        if isinstance(x, list):
            out.extend(flat(x))
        else:
            out.append(x)
    return out


SETUP_OPS = ("set", "obj", "emcy", "para", "paraalias", "#", "inject")


def npre_events(beh, preamble):
    return sum(1 for l in preamble(beh.cfg) if l.split()[0] not in SETUP_OPS)


def script_of(beh, preamble):
    """text fed to the harness for one behaviour"""
    lines = list(preamble(beh.cfg))
    for st in beh.steps:
        # "|" separates a silent setup line (e.g. inject) from the event proper
        for part in " ".join(str(v) for v in flat(st["e"])).split("|"):
            lines.append(part.strip())
    return lines


MAX_ITEMS = 3000


def parse_item(txt):
    parts = txt.split()
    if not parts:
        return None
    out = [parts[0]]
    for p in parts[1:]:
        try:
            out.append(int(p))
        except ValueError:
            out.append(p)
    return out


def replay(exe, behs, preamble, name, nproc=None, keep=False):
    """Run all behaviours; returns list of (status, [ [items] per executed event ]) aligned with behs.
    The preamble's events produce S lines too; they are dropped here (only the last len(steps) are kept...)
    so the preamble must consist of setup lines (set/obj/emcy/para) which print nothing, plus events
    which are marked by the profile as part of steps instead."""
    nproc = nproc or NCPU
    rdir = os.path.join(OUT, "replay", name)
    shutil.rmtree(rdir, ignore_errors=True)
    os.makedirs(rdir)
    n = len(behs)
    chunks = [list(range(i, n, nproc)) for i in range(nproc)]
    chunks = [c for c in chunks if c]
    files = []
    for ci, idxs in enumerate(chunks):
        fn = os.path.join(rdir, "in%d.txt" % ci)
        with open(fn, "w") as f:
            for i in idxs:
                f.write("B %d\n" % i)
                f.write("\n".join(script_of(behs[i], preamble)))
                f.write("\n")
        files.append(fn)
    env = dict(os.environ)
    env["ASAN_OPTIONS"] = "detect_leaks=0:abort_on_error=0:exitcode=77:allocator_may_return_null=1:symbolize=0"
    env["UBSAN_OPTIONS"] = "halt_on_error=1:print_stacktrace=0:symbolize=0:exitcode=76"

    def sib(fn, kind):
        d, b = os.path.split(fn)
        return os.path.join(d, kind + b[2:])

    def run(fn):
        with open(fn) as fi, open(sib(fn, "out"), "w") as fo, open(sib(fn, "err"), "w") as fe:
            r = subprocess.run([exe], stdin=fi, stdout=fo, stderr=fe, env=env, preexec_fn=_die_with_parent)
        return r.returncode

    with ThreadPoolExecutor(len(files)) as ex:
        rcs = list(ex.map(run, files))
    if any(rc != 0 for rc in rcs):
        raise Infra("harness exited with %s (see %s)" % (rcs, rdir))
    results = [None] * n
    npre = {}
    for fn in files:
        cur = None
        steps = []
        with open(sib(fn, "out"), errors="replace") as f:
            for ln in f:
                if ln.startswith("B "):
                    cur = int(ln[2:])
                    steps = []
                elif ln.startswith("S ") or ln.startswith("S\n"):
                    body = ln[2:].rstrip("\n")
                    # an event that produced hundreds of items (callbacks / frames without end) disagrees with every prediction:
                    # keep its head only, or a change that makes the code loop exhausts the memory of the orchestrator
                    parts = body.split(";", MAX_ITEMS + 1)
                    if len(parts) > MAX_ITEMS:
                        parts = parts[:MAX_ITEMS] + ["flood"]
                    steps.append([it for it in (parse_item(t) for t in parts) if it])
                elif ln.startswith("E "):
                    _, i, status = ln.split()
                    i = int(i)
                    k = npre_events(behs[i], preamble)
                    # a crash inside the preamble is attributed to step 0
                    results[i] = (status, steps[k:] if len(steps) >= k else [])
                    cur = None
    if any(r is None for r in results):
        raise Infra("harness output incomplete (see %s)" % rdir)
    if not keep:
        for fn in files:
            os.remove(sib(fn, "out"))
    return results


# ------------------------------------------------------------- compare
def item_match(pred, obs):
    """pred may contain -1 (any int) and a trailing '*' (any suffix)"""
    if pred and pred[-1] == "*":
        pred = pred[:-1]
        if len(obs) < len(pred):
            return False
        obs = obs[:len(pred)]
    if len(pred) != len(obs):
        return False
    for a, b in zip(pred, obs):
        if a == -1:
            continue
        if a == -2 and isinstance(b, int) and b != 0:      # any non-zero integer
            continue
        if a != b:
            return False
    return True


def match_lists(pred, obs, ordered):
    if len(pred) != len(obs):
        return False
    if ordered:
        return all(item_match(p, o) for p, o in zip(pred, obs))
    # multiset with wildcards: small lists, backtracking
    used = [False] * len(obs)

    def rec(i):
        if i == len(pred):
            return True
        for j, o in enumerate(obs):
            if not used[j] and item_match(pred[i], o):
                used[j] = True
                if rec(i + 1):
                    return True
                used[j] = False
        return False

    return rec(0)


def match_with_optional(req, opt, obs, ordered):
    """required predictions must be observed (in order if ordered); any further observed item
    must be covered by an optional prediction (kind? with prefix match)"""
    if not opt:
        return match_lists(req, obs, ordered)
    if ordered:
        k = 0
        for it in obs:
            if k < len(req) and item_match(req[k], it):
                k += 1
            elif any(item_match(q, it) for q in opt):
                continue
            else:
                return False
        return k == len(req)
    rest = list(obs)
    for r in req:
        for j, it in enumerate(rest):
            if item_match(r, it):
                del rest[j]
                break
        else:
            return False
    return all(any(item_match(q, it) for q in opt) for it in rest)


class Mismatch:
    def __init__(self, bi, step, kind, pred, obs, event):
        self.bi, self.step, self.kind, self.pred, self.obs, self.event = bi, step, kind, pred, obs, event

    def sig(self):
        return dict(kind=self.kind, event=self.event, predicted=self.pred, observed=self.obs, step=self.step)


def compare(behs, results, observe, ordered=True, nsetup_events=0, safety_only=False):
    """observe(item) -> bool : which observed items are in the model's scope.
    Returns (mismatches, stats)."""
    mism = []
    stats = collections.Counter()
    for bi, (b, (status, obs)) in enumerate(zip(behs, results)):
        if status == "skipped":         # the harness gave up on this chunk after many hung / crashed behaviours (all reported)
            stats["skipped"] += 1
            continue
        stats["behaviours"] += 1
        steps = b.steps
        suspended = safety_only
        bad = None
        for si, st in enumerate(steps):
            if si >= len(obs):
                break
            stats["steps"] += 1
            px = st.get("x", [])
            if any(p and p[0] == "resume" for p in px):
                suspended = False
                continue
            if suspended:
                continue
            if any(p and p[0] == "stop" for p in px):
                suspended = True
                stats["suspended"] += 1
                continue
            if any(p and p[0] == "free" for p in px):
                stats["free_steps"] += 1
                continue
            o = [it for it in obs[si] if observe(it)]
            if px:
                stats["nonempty_pred"] += 1
            opt = [[p[0][:-1]] + list(p[1:]) + ["*"] for p in px if p and isinstance(p[0], str) and p[0].endswith("?")]
            req = [p for p in px if not (p and isinstance(p[0], str) and p[0].endswith("?"))] if opt else px
            if not match_with_optional(req, opt, o, ordered(st["e"]) if callable(ordered) else ordered):
                bad = Mismatch(bi, si, "mismatch", px, o, st["e"])
                break
        if bad is None and status != "ok":
            si = min(len(obs), len(steps)) - 1
            raw = obs[si] if 0 <= si < len(obs) else []
            bad = Mismatch(bi, si, "crash:" + status, steps[si].get("x", []) if 0 <= si < len(steps) else [], raw,
                           steps[si]["e"] if 0 <= si < len(steps) else [])
        elif bad is None and len(obs) < len(steps):
            bad = Mismatch(bi, len(obs), "short", [], [], [])
        if bad:
            mism.append(bad)
            stats["disagree"] += 1
        else:
            stats["agree"] += 1
    return mism, stats
