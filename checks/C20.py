"""C20 -- a reset communication (and reset node) is indistinguishable from a fresh start.

Behaviours  H ; reset ; P  from four component models whose reset operator is checked (in the model) to equal
'freshly initialised and started with the current dictionary values'; P exposes the post-reset behaviour
incl. the timer pool occupancy.  (L) is the LSS slave: reset in the middle of the selective / identify sequences.
The SDO server part: recorded PRNG dialogues with resets in the middle of transfers on one and two servers (CoSsdoTrace),
next to the reset probe of C05."""
import common, node_common, node_check, pdo_check, vlib
import C15, C18, C19

def obs_node(it):
    return node_check.observe(it) or it[0] in ("acts", "fire")

def obs_pdo(it):
    return pdo_check.observe(it) or it[0] == "acts"

def run(ctx):
    q = ctx.tier == "quick"
    ctx.assumptions += [
        "(E32) the EMCY model with the full table of 32 errors (identifiers at the byte boundaries of the error-status storage) across COEmcyReset and NMT resets", "component-wise: (L) LSS slave incl. partial selective / identify sequences and pending configuration, (N) NMT + heartbeat producer + two heartbeat consumers + application timers + EMCY flag, (P) SYNC producer/consumer + event TPDO with inhibit/event timers + synchronous RPDO, (C) SDO client with running transfers, (E) EMCY errors / register; reset communication and reset node in every reachable state of each bounded model",
        "in each model TLC checks 'state after reset = FreshFrom(current dictionary values)' (application values and application timers untouched); the SDO server part is covered by the reset probe of C05",
        "the probe after the reset observes: free timer slots (pool of 16, application timers keep their slots), mode, heartbeat timing, consumer monitoring from the first heartbeat, SYNC production and consumption, PDOs silent until OPERATIONAL, client idle and usable, errors cleared",
        "the ring position of the EMCY history is not a dictionary value: reads of 1003h:n are not part of the probe (C15 owns the history)",
    ]
    plan = [("MCNode", "C20N", node_common.make_preamble(node_check.cfgfix), obs_node, "C20N_genq.cfg"),
            ("MCPdo", "C20P", node_common.make_preamble(pdo_check.fix), obs_pdo, None),
            ("MCCsdo", "C20C", node_common.make_preamble(C19.fix), lambda it: C19.observe(it), None),
            ("MCEmcy", "C20E", node_common.make_preamble(C15.fix), C15.observe, None),
            ("MCEmcy", "C15W", node_common.make_preamble(C15.fix), C15.observe, None),
            ("MCLss", "C20L", node_common.make_preamble(C18.fix), C18.observe, None)]
    for module, pid, pre, obs, genq in plan:
        ctx.mc(module, "%s_mc.cfg" % pid, timeout=2500)
        behs = ctx.gen_edges(module, genq if (q and genq) else "%s_gen.cfg" % pid, timeout=3000)
        if q:
            behs = common.thin(behs, 4000, ctx.seed)
        ctx.replay(behs, pre, obs, ordered=node_check.tick_unordered, label="edges_" + pid)
        w = ctx.gen_walks(module, "%s_walk.cfg" % pid, num=40 if q else 1500, depth=45, timeout=2500)
        ctx.replay(w, pre, obs, ordered=node_check.tick_unordered, label="walks_" + pid)
    # SDO servers (all of them) idle after the reset: recorded dialogues of PRNG clients on a CO_SSDO_N = 2 build with NMT reset
    # communication arriving in the middle of transfers, validated by TLC against CoSsdoTrace
    import sdo_trace
    sdo_trace.run(ctx, 400 if q else 15000, ndlg=10, nsrv=2, profile="C20")
    sdo_trace.run(ctx, 300 if q else 10000, ndlg=10, nsrv=1, profile="C20")
    # reset = fresh start of the node as a whole (product model CoFull: TLC checks it on every reset of every walk, the probe resets once more)
    import full_check
    full_check.run(ctx, 300 if q else 6000)
VARIANTS = {"default": (), "n2": ("CO_SSDO_N=2",)}
