"""C09 -- NMT state machine and per-state service gating (CoNode / CoNodeGen)."""
import common, node_common, node_check

def observe(it):
    if it[0] == "tx":
        return True
    if it[0] == "cb":
        return it[1] in ("modechg", "resetreq", "canrx", "pdorx", "pdotx", "hbevent", "hbchange")
    return it[0] in ("ret",)

def cfgfix(cfg):
    return dict(hc=[[a, b] for a, b in cfg["hc"]])

def run(ctx):
    q = ctx.tier == "quick"
    ctx.assumptions += [
        "alphabet: NMT commands {1,2,128,129,130, unknown 3, 0} x target {own id, 0, other}, application mode changes to PREOP/OP/STOP, one probe frame per service (SDO read/write, RPDO, SYNC, LSS, heartbeat of a monitored and an unmonitored node, two unclaimed identifiers), EMCY set/clear, TPDO trigger, tick, mode query",
        "node id 5, heartbeat producer 2 ms, one consumer entry (node 10, 2 ms), timer 1 kHz; timers are abstract countdowns (timer manager verified by C07/C08)",
        "frames in STOPPED / after CONodeStop are not asserted to reach the application callback (the statement leaves it open); LSS frames are the ones the slave answers with silence in waiting state (C18 owns the LSS protocol)",
        "callbacks compared: mode change, reset request, unclaimed frame, PDO receive/transmit, heartbeat event/change; all transmitted frames compared; per-step order compared",
    ]
    ctx.mc("MCNode", "C09_mc.cfg")
    behs = ctx.gen_edges("MCNode", "C09_gen.cfg")
    if q:
        behs = common.thin(behs, 8000, ctx.seed)
    pre = node_common.make_preamble(cfgfix)
    ctx.replay(behs, pre, observe, ordered=True, label="edges")
    walks = ctx.gen_walks("MCNode", "C09_walk.cfg", num=100 if q else 5000, depth=45)
    ctx.replay(walks, pre, observe, ordered=True, label="walks")
    node_check.node_id_variant(ctx, "MCNode", "C09", pre, observe, True, (100, 5000), 45, 2500)
    # "each received frame is handled by at most one service": the silent SDO cases (segments inside a download
    # block, start / end of a block upload) only exist inside block transfers, which the node model's minimal SDO
    # server does not contain; a slice of the SDO alphabet model (CoSsdoGen) is replayed with the unclaimed-frame
    # callback observed
    import sdo_alpha, sdo_common
    objs = sdo_common.model_dict("MCSsdoGen", "MCDict")
    sb = ctx.gen_edges("MCSsdoGen", "C04_genq.cfg", timeout=3000)
    sb = common.thin(sb, 1500 if q else 20000, ctx.seed)
    ctx.replay(sb, common.wrap(sdo_alpha.preamble_for(objs)), sdo_common.observe, variant="h0", defines=sdo_alpha.VARIANTS["h0"], ordered=True, label="sdo_claimed_frames")
    import sdo_trace
    sdo_trace.run(ctx, 500 if q else 15000, ndlg=8)
    # "PDO in OPERATIONAL only" where the PDO service keeps state across NMT transitions (a buffered synchronous RPDO frame):
    # configuration C09P of the PDO model, whose step claim is 'objects change through RPDO / SYNC in OPERATIONAL only'
    import pdo_check
    pdo_check.run(ctx, ["C09P"], quick_edges=4000, walks=(30, 1500))
    # per-state gating with every service configured in one node (product model CoFull)
    import full_check
    full_check.run(ctx, 500 if q else 6000)
VARIANTS = {"default": (), "h0": ("CO_VERIF_SDO_BUF_SEG=3",)}
