"""helpers shared by the check modules"""
import random, json, os, sys
import vlib
from vlib import Beh


def wrap(preamble):
    cache = {}
    def f(cfg):
        k = json.dumps(cfg, sort_keys=True)
        if k not in cache:
            cache[k] = preamble(cfg)
        return cache[k]
    return f


def cfg_variant(cfgname, subs, tag):
    """a copy of spec/<cfgname> with textual substitutions of constants (e.g. another node id), written under out/tlc/"""
    import os
    txt = open(os.path.join(vlib.SPEC, cfgname)).read()
    for a, b in subs:
        if a not in txt:
            raise vlib.Infra("cfg_variant: %r not in %s" % (a, cfgname))
        txt = txt.replace(a, b)
    d = os.path.join(vlib.OUT, "tlc")
    os.makedirs(d, exist_ok=True)
    pth = os.path.join(d, "%s_%s.cfg" % (cfgname[:-4], tag))
    open(pth, "w").write(txt)
    return pth


def thin(behs, n, seed):
    """deterministic subsample (quick tier); keeps order"""
    if len(behs) <= n:
        return behs
    rnd = random.Random(seed)
    idx = sorted(rnd.sample(range(len(behs)), n))
    return [behs[i] for i in idx]


def le(v, n):
    return [(v >> (8 * i)) & 0xFF for i in range(n)]


def conv_behaviours(outp, quick, seed):
    """CONV records printed by MCConv -> behaviours (one per frequency and unit)"""
    groups = {}
    for js in vlib.tlc_lines(outp, "CONV"):
        r = json.loads(js)
        groups.setdefault((r["f"], r["u"]), []).append(r)
    behs = []
    for (f, u), rs in sorted(groups.items()):
        if quick:
            rs = thin(rs, 400, seed)
        steps = [dict(e=["setfreq", f], x=[])]
        for r in rs:
            steps.append(dict(e=["get_ticks", r["t"], u], x=[["ret"] + r["r"]]))
        steps.append(dict(e=["ticks_mono", u, 0, 65535], x=[["ret", 1]]))
        behs.append(Beh(1, steps, 1))
    return behs
