import pdo_check
def run(ctx):
    pdo_check.run(ctx, ["C14T", "C14R", "C14W", "C14X"], quick_edges=9000, walks=(40, 2000))
