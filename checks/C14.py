import pdo_check
def run(ctx):
    pdo_check.run(ctx, ["C14T", "C14R", "C14W", "C14X"], quick_edges=6000, walks=(30, 2000), secondary=3500, shift_n=1500)
    # reconfiguration while timers run and NMT transitions happen in between (product model CoFull: COB-ID / event time / inhibit time /
    # SYNC object writes next to ticks, triggers and every other service)
    import full_check
    full_check.run(ctx, 300 if ctx.tier == "quick" else 6000)
VARIANTS = {"default": (), "r4t2": ("CO_RPDO_N=4", "CO_TPDO_N=2"), "r2t4": ("CO_RPDO_N=2", "CO_TPDO_N=4")}
