"""C07 -- every timed action fires exactly when due (CoTmr / CoTmrGen)."""
import common

def preamble(cfg):
    return ["set tmrn %d" % cfg, "obj 4096 0 130 2 0 0 0 0", "init"]

def observe(it):
    return it[0] in ("ret", "fire", "acts", "cons")

def run(ctx):
    q = ctx.tier == "quick"
    ctx.assumptions += [
        "bounded model: pool size 3 (edge cover), times 0..3; random walks pool 4, times {0,1,2,3,5}",
        "callbacks of the generated behaviours do not themselves call the timer API (re-entrancy is covered by C08 and the node-level checks)",
        "timer handles are opaque: id allocation order is not compared; fired actions of one processing step are compared as a set",
        "hardware timer = down-counter semantics of the reference driver (Reload/Delay/Stop/Update)",
    ]
    ctx.mc("MCTmr", "C07_mc.cfg")
    if not q:
        ctx.mc("MCTmr", "C07_mc4.cfg", timeout=3000)
    rc = ctx.mc("MCConv", "C07_conv.cfg", workers=1)
    behs = ctx.gen_edges("MCTmr", "C07_genq.cfg" if q else "C07_gen.cfg")
    if q:
        behs = common.thin(behs, 40000, ctx.seed)
    ctx.replay(behs, common.wrap(preamble), observe, ordered=False, label="edges")
    walks = ctx.gen_walks("MCTmr", "C07_walk.cfg", num=400 if q else 20000, depth=45)
    ctx.replay(walks, common.wrap(preamble), observe, ordered=False, label="walks")
    conv = common.conv_behaviours(rc['out'], q, ctx.seed)
    ctx.replay(conv, common.wrap(preamble), observe, ordered=True, label="conv")
    import tmr_trace
    q_plans = [(16, 3000, 'C08_trace16.cfg', 2)]
    t_plans = [(m, n * 4, c, k * 6) for (m, n, c, k) in q_plans]
    ctx.assumptions.append("direction code -> spec: traces recorded from the real timer manager under random tick injection at every lock / unlock / callback boundary (PRNG driver, pool 3 and 16) are validated event by event by TLC against CoTmrPreTrace (scalar state equal after every event, pool conservation as invariant); which free slot the implementation hands out is left open")
    tmr_trace.run(ctx, q_plans if q else t_plans)
