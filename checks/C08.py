"""C08 -- timer pools under interrupt preemption and deferred processing (CoTmrPre / CoTmrPreGen)."""
import common

def preamble(cfg):
    return ["set tmrn %d" % cfg, "set autopool 1", "obj 4096 0 130 2 0 0 0 0", "init"]

def observe(it):
    return it[0] in ("ret", "fire", "acts", "cons", "isvc")

def run(ctx):
    q = ctx.tier == "quick"
    ctx.assumptions += [
        "preemption is modelled at COTmrLock entry / COTmrUnlock exit only: complete under the assumption that the critical sections are atomic w.r.t. the tick interrupt",
        "interleaving model: pool 3, times {0,1,2}; injection schedules: 0..2 ticks at each of the first 6 lock boundaries of COTmrProcess and at both boundaries of create/delete",
        "callbacks of generated behaviours do not call the timer API",
        "a handle whose real id may have been re-assigned is never deleted under injection (no id aliasing)",
    ]
    ctx.mc("MCTmrPre", "C08_mc.cfg")
    behs = ctx.gen_edges("MCTmrPre", "C08_genq.cfg" if q else "C08_gen.cfg")
    if q:
        behs = common.thin(behs, 40000, ctx.seed)
    ctx.replay(behs, common.wrap(preamble), observe, ordered=True, label="edges")
    walks = ctx.gen_walks("MCTmrPre", "C08_walk.cfg", num=300 if q else 2500, depth=45, timeout=3000)
    ctx.replay(walks, common.wrap(preamble), observe, ordered=True, label="walks")
    import tmr_trace
    q_plans = [(3, 2500, 'C08_trace.cfg', 4), (16, 3000, 'C08_trace16.cfg', 2)]
    t_plans = [(m, n * 4, c, k * 6) for (m, n, c, k) in q_plans]
    ctx.assumptions.append("direction code -> spec: traces recorded from the real timer manager under random tick injection at every lock / unlock / callback boundary (PRNG driver, pool 3 and 16) are validated event by event by TLC against CoTmrPreTrace (scalar state equal after every event, pool conservation as invariant); which free slot the implementation hands out is left open")
    tmr_trace.run(ctx, q_plans if q else t_plans)
