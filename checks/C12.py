import pdo_check
def run(ctx):
    pdo_check.run(ctx, ["C12", "C12V", "C12R", "C12S"], quick_edges=8000, walks=(40, 2500), secondary=3000)
    # the PDO / SYNC services next to every other service and timer of the node (product model CoFull)
    import full_check
    full_check.run(ctx, 500 if ctx.tier == "quick" else 6000)
