import pdo_check
def run(ctx):
    pdo_check.run(ctx, ["C12", "C12V", "C12R"])
