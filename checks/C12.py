import pdo_check
def run(ctx):
    pdo_check.run(ctx, ["C12", "C12V", "C12R", "C12S"], quick_edges=8000, walks=(40, 2500), secondary=3000)
