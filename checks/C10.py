"""C10 -- heartbeat producer period and content (CoNode / CoNodeGen)."""
import node_check

def run(ctx):
    ctx.assumptions += [
        "alphabet: tick, NMT start/stop/pre-op/reset communication/reset node, SDO and API writes of 1017h (0..4 ms), heartbeat of a monitored node (consumer timer activity), TPDO trigger, SDO read; node id 5, 1017h = 2 ms initially, one consumer (node 10, 3 ms), 1 kHz timer",
        "invariant on the reference (ghost countdown): a heartbeat frame with the current state is sent on a tick iff the countdown expires on it and the state is PRE-OPERATIONAL/OPERATIONAL/STOPPED; a write restarts the countdown, 0 stops it",
        "PDO/SYNC reconfiguration interleavings are covered by the C12/C16 alphabets, which also contain the heartbeat producer",
    ]
    node_check.run(ctx, "C10", walks=(150, 8000))
