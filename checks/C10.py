"""C10 -- heartbeat producer period and content (CoNode / CoNodeGen)."""
import node_check

def run(ctx):
    ctx.assumptions += [
        "alphabet: tick, NMT start/stop/pre-op/reset communication/reset node, SDO and API writes of 1017h (0..4 ms), heartbeat of a monitored node (consumer timer activity), TPDO trigger, SDO read; node id 5, 1017h = 2 ms initially, one consumer (node 10, 3 ms), 1 kHz timer",
        "invariant on the reference (ghost countdown): a heartbeat frame with the current state is sent on a tick iff the countdown expires on it and the state is PRE-OPERATIONAL/OPERATIONAL/STOPPED; a write restarts the countdown, 0 stops it",
        "PDO reconfiguration and PDO timer activity: configuration C10P of the PDO model (CoPdo with its heartbeat producer): event TPDO with inhibit and event timer, COB-ID / event-time writes, NMT, reset, 1017h written 0 / 2 / 3 ms at any point; timer-pool occupancy in the probe",
    ]
    node_check.run(ctx, "C10", walks=(150, 8000))
    import pdo_check
    pdo_check.run(ctx, ["C10P"], quick_edges=9000, walks=(40, 2000))
    # "no NMT state change, PDO or SYNC reconfiguration or other timer activity shifts, duplicates or suppresses a heartbeat": the heartbeat
    # producer next to every other service and timer of the node (product model CoFull)
    import full_check
    full_check.run(ctx, 400 if ctx.tier == "quick" else 6000)
