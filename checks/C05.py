"""C05 -- no history can wedge an SDO server."""
import sdo_alpha
VARIANTS = sdo_alpha.VARIANTS
def run(ctx):
    sdo_alpha.run(ctx, "C05")
