"""direction code -> spec for the SDO client (C19): a PRNG application requests transfers of random sizes / timeouts, lets
time pass, has the harness's built-in SDO server answer the client's last frame (conforming or deviating) and issues
requests from inside the completion callback; the recorded trace is validated by TLC against CoCsdoTrace (= CoCsdo's
ReqUpload / ReqDownload / Resp / Tick as the only oracle)."""
import json, os, random
from concurrent.futures import ThreadPoolExecutor
import vlib, node_common
from vlib import Beh

IDX, SUB, TXID, RXID = 0x2100, 0, 1545, 1417
SIZES = [1, 2, 3, 4, 5, 6, 7, 8, 9, 13, 14, 15, 16, 20, 21, 22, 28, 29, 35, 36, 50]
BIG = [100, 255, 256, 259, 263, 264, 500, 2000]


def behaviour(rnd, nops):
    ev = []

    def size():
        return rnd.choice(BIG) if rnd.random() < 0.04 else rnd.choice(SIZES)

    def request(chain=False):
        k = rnd.choice(["up", "down"])
        n, t, b = size(), rnd.choice([0, 2, 3, 5, 9]), rnd.randrange(0, 256)
        if chain:
            ev.append(["csdo_chain", 1 if k == "up" else 2, IDX, SUB, n, t, b])
        elif k == "up":
            ev.append(["csdo_up", 0, IDX, SUB, n, t])
        else:
            ev.append(["csdo_down", 0, IDX, SUB, n, t, 0, b])
        return n

    n = 0
    for _ in range(nops):
        r = rnd.random()
        if r < 0.16:
            n = request()
            if rnd.random() < 0.25:
                request(chain=True)
        elif r < 0.70:
            # the server answers; mostly a run of conforming answers (a transfer of n bytes needs about n / 7 + 2)
            for _ in range(rnd.choice([1, 1, 2, 3, n // 7 + 2, n // 7 + 3])):
                ev.append(["csrv", RXID, 0])
        elif r < 0.76:
            ev.append(["csrv", RXID, rnd.choice([1, 1, 2, 3, 4, 5, 6, 6, 7, 7])])
        elif r < 0.90:
            for _ in range(rnd.choice([1, 1, 2, 3, 6, 10])):
                ev.append(["tick"])
        elif r < 0.95:
            ev.append(["ubuf", 0])
        else:
            ev.append(["pool"])
    ev += [["tick"]] * 10 + [["pool"], ["csdo_up", 0, IDX, SUB, 4, 5], ["csrv", RXID, 0], ["ubuf", 0], ["pool"]]
    return ev


def run(ctx, nbeh, nops=60, nfiles=16, client=0):
    import C19
    behs = []
    for k in range(nbeh):
        rnd = random.Random(ctx.seed * 1000003 + k * 7919 + 19)
        evs = behaviour(rnd, nops)
        if client:
            for e in evs:
                if e[0] in ("csdo_up", "csdo_down"):
                    e[1] = client
        behs.append(Beh(dict(n=5, srv=9, trace=k, csdo_slot=client), [dict(e=e, x=[]) for e in evs], 0))
    pre = node_common.make_preamble(C19.fix)
    variant = "c2" if client else "default"
    exe = ctx.exe(variant, ("CO_CSDO_N=2",) if client else ())
    results = vlib.replay(exe, behs, pre, ctx.pid + "_csdotrace%d" % client)
    tdir = os.path.join(vlib.OUT, "traces", ctx.pid)
    os.makedirs(tdir, exist_ok=True)

    def split(obs):
        """items of one event -> (tx, cb, app, chain, inj): a chained request's items follow the callback item"""
        tx, cb, chain, inj, app = [], [], [], None, 0
        after_cb, ctx_ = False, []
        for it in obs:
            if it[0] == "inj":
                inj = it[1:9]
            elif it[0] == "cb" and it[1] == "csdo":
                cb.append(it[5:9])
                after_cb = True
            elif it[0] == "cb" and it[1] == "canrx":
                app += 1
            elif it[0] == "chain":
                chain.append(dict(ok=1 if it[1] == "ok" else 0, tx=ctx_))
                ctx_ = []
                after_cb = False
            elif it[0] == "tx" and it[1] == TXID:
                (ctx_ if after_cb else tx).append(it[3:11])
            elif it[0] == "tx":
                app += 100
        tx += ctx_        # frames after the callback that belong to no chained request
        return tx, cb, app, chain, inj

    files, nev = [], 0
    for fi in range(nfiles):
        idxs = list(range(fi, nbeh, nfiles))
        if not idxs:
            continue
        fn = os.path.join(tdir, "csdo_%d.ndjson" % fi)
        linemap = [None]
        with open(fn, "w") as f:
            f.write('{"e":"cfg"}\n')
            for bi in idxs:
                status, steps = results[bi]
                b = behs[bi]
                if status != "ok":
                    m = vlib.Mismatch(bi, len(steps), "crash:" + status, [], [["died"]], b.steps[min(len(steps), len(b.steps) - 1)]["e"])
                    ctx.violations.append((m, b, pre, variant, "csdo_trace"))
                    continue
                f.write('{"e":"reset"}\n')
                linemap.append((bi, -1))
                armed = None
                for si, (st, obs) in enumerate(zip(b.steps, steps)):
                    e = st["e"]
                    rec = None
                    if e[0] == "csdo_chain":
                        armed = dict(k="up" if e[1] == 1 else "down", size=e[4], tmt=e[5], base=e[6])
                        continue
                    tx, cb, app, chain, inj = split(obs)
                    ch = []
                    if chain:
                        ch = [dict(armed or dict(k="up", size=0, tmt=0, base=0), ok=chain[0]["ok"], tx=chain[0]["tx"])]
                        armed = None
                    if e[0] in ("csdo_up", "csdo_down"):
                        ok = 1 if any(it[0] == "ok" for it in obs) else 0
                        rec = dict(e="req", k="up" if e[0] == "csdo_up" else "down", size=e[4], tmt=e[5], base=e[7] if len(e) > 7 else 0, ok=ok, tx=tx)
                    elif e[0] == "csrv":
                        rec = dict(e="rx", f=inj or [0] * 8, tx=tx, cb=cb, app=app, chain=ch)
                    elif e[0] == "tick":
                        rec = dict(e="tick", tx=tx, cb=cb, chain=ch)
                    elif e[0] == "ubuf":
                        u = [it for it in obs if it[0] == "ubuf"]
                        rec = dict(e="ubuf", data=u[0][2:] if u else [])
                    elif e[0] == "pool":
                        a = [it for it in obs if it[0] == "acts"]
                        rec = dict(e="pool", acts=a[0][1] if a else -1)
                    if rec is None:
                        continue
                    f.write(json.dumps(rec) + "\n")
                    linemap.append((bi, si))
                    nev += 1
        files.append((fn, linemap))

    def validate(job):
        fn, linemap = job
        last = None
        for attempt in (1, 2):          # a rejection is believed only if an immediate re-run repeats it
            t = vlib.run_tlc("CoCsdoTrace", "Csdo_trace.cfg", workers=1, env={"TRACE": fn}, timeout=1500, deadlock=True, heap="4g",
                             outfile=os.path.join(vlib.OUT, "tlc", "csdotrace_%s_%s.out" % (ctx.pid, os.path.basename(fn))))
            det = [json.loads(x) for x in vlib.tlc_lines(t["out"], "DET")]
            rej = [json.loads(x) for x in vlib.tlc_lines(t["out"], "REJECT")]
            if t["rc"] == 0 and not t["violation"] and det:
                return (fn, linemap, None, det[-1])
            if not rej and t["rc"] not in (12, 13):
                raise vlib.Infra("TLC failed on trace %s: rc=%s %s" % (fn, t["rc"], t["tail"]))
            last = (rej, t)
        rej, t = last
        return (fn, linemap, rej[-1] if rej else dict(l=0, exp="?"), None)

    with ThreadPoolExecutor(8) as ex:
        res = list(ex.map(validate, files))
    ndet = nacc = 0
    for fn, linemap, rej, det in res:
        if rej is None:
            ndet += det["nd"]
            nacc += det["n"]
            os.remove(fn)
            continue
        ln = rej["l"]
        bi, si = linemap[ln - 1] if 0 < ln <= len(linemap) and linemap[ln - 1] else (0, 0)
        b = behs[bi]
        status, steps = results[bi]
        obs = steps[si] if 0 <= si < len(steps) else []
        m = vlib.Mismatch(bi, max(si, 0), "trace-rejected", [["model", json.dumps(rej["exp"])[:400]]], obs, b.steps[max(si, 0)]["e"])
        ctx.violations.append((m, b, pre, variant, "csdo_trace"))
    ctx.traces_validated += nbeh
    ctx.steps += nev
    ctx.mc_runs.append(dict(mode="trace-validation", module="CoCsdoTrace", client=client, traces=len(res), behaviours=nbeh, events=nev, determined_steps_compared=ndet))
    ctx.extra["recorded_trace_events"] = ctx.extra.get("recorded_trace_events", 0) + nev
    ctx.extra["recorded_steps_with_determined_reaction"] = ctx.extra.get("recorded_steps_with_determined_reaction", 0) + ndet
    ctx.checkpoint()
    if nacc and ndet < nacc // 4:
        raise vlib.Infra("csdo trace validation is nearly vacuous: %d of %d events compared" % (ndet, nacc))
    return nev, ndet
