"""C01 -- no frame, tick or driver-fault sequence can corrupt memory or crash the node.

Level: exploration.  The TLA+ specification CoChaos supplies the histories (walks over an alphabet of event
classes derived from every decoder's case analysis); the deciding oracle is instrumentation of the real
code: ASan / UBSan (incl. bounds), exact-size heap blocks for every region handed to the stack,
CONodeFatalError, a per-behaviour watchdog and a frame-flood limit."""
import random, json, copy
import common, node_common, vlib
from node_common import link

LEVEL = "exploration"
VARIANTS = {"n1": (), "n2": ("CO_SSDO_N=2",), "h0": ("CO_VERIF_SDO_BUF_SEG=3",),
            # unequal numbers of PDOs (the dictionary holds four of each: the surplus communication objects are plain storage)
            "r2t4": ("CO_RPDO_N=2", "CO_TPDO_N=4"), "r4t2": ("CO_RPDO_N=4", "CO_TPDO_N=2", "CO_SSDO_N=2")}

def full_cfg(n):
    objs = [[0x2100, 0, 0x0F, 0, 1], [0x2101, 0, 0x0F, 0, 2], [0x2102, 0, 0x07, 1, 3, 4], [0x2103, 0, 0x07, 2, 5, 6, 7, 8], [0x2104, 0, 0x06, 0, 9], [0x2105, 0, 0x03, 0, 10],
            [0x2110, 0, 130, 0, 2], [0x2110, 1, 3, 3, 9], [0x2110, 2, 3, 3, 300], [0x2110, 3, 3, 3, 30],
            [0x2120, 0, 130, 0, 2], [0x2120, 1, 2, 4, 97, 98, 99], [0x2120, 2, 2, 4] + [65 + (i % 26) for i in range(20)],
            [0x1010, 0, 130, 17, 1], [0x1010, 1, 3, 17, 0], [0x1011, 0, 130, 18, 1], [0x1011, 1, 3, 18, 0],
            [0x1201, 0, 130, 0, 2], [0x1201, 1, 3, 7, 0x10, 0x06, 0, 0], [0x1201, 2, 3, 7, 0x90, 0x05, 0, 0],
            [0x1804, 0, 130, 0, 5], [0x1804, 1, 3, 8, 0x85, 0x05, 0, 0x40], [0x1804, 2, 3, 9, 254], [0x1804, 3, 3, 1, 0, 0], [0x1804, 5, 3, 12, 0, 0]]
    return dict(n=n, hb=2, hc=[[10, 2], [11, 3]], sync=[0x80, 0], hist=2, csdo=9, emcy=[[i % 8, 0x1000 + 0x100 * i] for i in range(32)],
                rpdo=[[0x200 + n, 254, [link(0x2100, 0, 8), link(5, 0, 8), link(0x2102, 0, 16)]], [0x300 + n, 1, [link(0x2101, 0, 8)]],
                      [0x400 + n, 255, [link(7, 0, 32), link(7, 0, 32)]], [0x80000500 + n, 254, []]],
                tpdo=[[0x40000180 + n, 254, 20, 3, [link(0x2100, 0, 8), link(0x2102, 0, 16)]], [0x40000280 + n, 1, 0, 0, [link(0x2101, 0, 8)]],
                      [0xC0000380 + n, 254, 0, 2, [link(0x2103, 0, 32)]], [0x40000480 + n, 255, 0, 0, [link(0x2103, 0, 32), link(0x2103, 0, 32)]]],
                objs=objs, mapslots=3, para=True)

VAR = {
    "full": lambda c: c,
    "no1003": lambda c: dict(c, hist=0),
    "nosync": lambda c: dict(c, sync=None),
    "no1014": lambda c: dict(c, emcyid=None),
    "nohb": lambda c: dict(c, hb=None, hc=[]),
    "nopara": lambda c: dict(c, objs=[o for o in c["objs"] if o[0] not in (0x1010, 0x1011)], para=False),
    "nopdo": lambda c: dict(c, rpdo=[], tpdo=[], objs=[o for o in c["objs"] if o[0] != 0x1804]),
    "rpdo_sync_behind_async": lambda c: dict(c, rpdo=[c["rpdo"][0], c["rpdo"][3], c["rpdo"][1]]),
    "noemcytbl": lambda c: dict(c, emcy=[]),
    # a hole in the sub-index lists of 1010h / 1011h (highest sub-index 3, sub-index 2 missing)
    "para_gap": lambda c: dict(c, objs=[o for o in c["objs"] if o[0] not in (0x1010, 0x1011)] +
                                       [[0x1010, 0, 130, 17, 3], [0x1010, 1, 3, 17, 0], [0x1010, 3, 3, 17, 0], [0x1011, 0, 130, 18, 3], [0x1011, 1, 3, 18, 0], [0x1011, 3, 3, 18, 0]]),
}

def preamble(cfg):
    c = VAR[cfg["dict"]](full_cfg(cfg["n"]))
    lines = ["set nodeid %d" % c["n"]]
    if cfg.get("freq", 1000) != 1000:
        lines.append("set freq %d" % cfg["freq"])
    if c.get("para"):
        lines.append("para 0 0 4 2 1 1 1 2 3 4")
    for reg, code in c.get("emcy", []):
        lines.append("emcy %d %d" % (reg, code))
    lines += node_common.std_dict(c)
    lines += ["init", "start"]
    return lines

def fill(behs, seed):
    rnd = random.Random(seed)
    for b in behs:
        for st in b.steps:
            e = st["e"]
            if e and e[0] == "rx":
                if e[1] == -1:
                    e[1] = rnd.choice([rnd.randrange(0, 0x800), rnd.randrange(0, 0x800), 0x80000000 | rnd.randrange(0, 0x800)])
                if e[2] == -1:
                    e[2] = rnd.randrange(0, 9)
            st["e"] = [e[0]] + [rnd.randrange(0, 256) if (isinstance(v, int) and v == -1) else v for v in e[1:]]

def pumped(behs, seed, frac=0.25, n=300):
    from vlib import Beh
    rnd = random.Random(seed + 7)
    out = []
    for b in behs:
        if rnd.random() < frac and len(b.steps) > 5:
            k = rnd.randrange(2, len(b.steps) - 1)
            steps = b.steps[:k] + [copy.deepcopy(b.steps[k]) for _ in range(n)] + b.steps[k + 1:]
            out.append(Beh(b.cfg, steps, b.nprefix, "pump"))
    return out

def run(ctx):
    q = ctx.tier == "quick"
    ctx.assumptions += [
        "level exploration: the specification (CoChaos) generates the histories, the oracle is instrumentation of the C code (ASan, UBSan incl. array bounds, exact-size heap blocks for dictionary array / object storage / SDO buffer / timer memory / user buffers, CONodeFatalError, 10 s watchdog per behaviour, > 4096 frames per event)",
        "alphabet (~4000 event classes): SDO frames (39 command bytes x 41 multiplexers, both servers, size / block-size / acknowledge boundary values), NMT, SYNC, RPDO / TPDO / EMCY identifiers with DLC 0..8, heartbeats, all LSS command specifiers incl. activate bit timing, SDO client answers, random identifiers; ticks, service / process split, empty and failing CAN reads, failing CAN sends, short NVM counts, and application calls with out-of-range arguments; unconstrained bytes from the seeded PRNG",
        "dictionaries: a full one (2 SDO servers, client, 4 RPDOs incl. dummies and a synchronous one, 4 TPDOs, 1804h beyond CO_TPDO_N, 1010h/1011h, domains, strings, 32-entry EMCY table) and variants lacking one optional group each; builds: CO_SSDO_N = 1 and 2, the 3-segment H0 variant, and CO_RPDO_N / CO_TPDO_N = 2/4 and 4/2; timer frequency 1 kHz in 60 % of the histories, else one of 0, 1, 7, 300, 1500, 1 MHz, 2^32-1 Hz",
        "one quarter of the walks is replayed a second time with one event pumped 300 times",
        "in-struct overruns that stay inside CO_NODE are invisible to the sanitizers: those are owned by the behavioural checks (C12 for 18xxh:5)",
    ]
    dicts = ["full", "no1003", "rpdo_sync_behind_async", "nopara", "para_gap"] if q else list(VAR)
    nwalk = 260 if q else 4000
    total = []
    classes = set()
    for i, dn in enumerate(dicts):
        import os
        cfgp = os.path.join(vlib.OUT, "tlc", "C01_walk_%s.cfg" % dn)
        os.makedirs(os.path.dirname(cfgp), exist_ok=True)
        open(cfgp, "w").write(open(os.path.join(vlib.SPEC, "C01_walk.cfg")).read().replace('DictName = "full"', 'DictName = "%s"' % dn))
        ctx.seed_save = ctx.seed
        ctx.seed = ctx.seed * 100 + i
        w = ctx.gen_walks("CoChaos", cfgp, num=nwalk, depth=130, workers=8, timeout=3000)
        ctx.seed = ctx.seed_save
        for b in w:
            for st in b.steps:
                classes.add(json.dumps(st["e"]))
        fill(w, ctx.seed * 1000 + i)
        # "forall build configurations (..., timer frequency)": the node specification's TmrFreq, incl. 0 (no time base: the
        # conversion functions guard it) and values that neither divide nor are divided by the time units
        frnd = random.Random(ctx.seed * 77 + i)
        for b in w:
            if frnd.random() < 0.4:
                b.cfg = dict(b.cfg, freq=frnd.choice([0, 0, 1, 7, 300, 1500, 1000000, 4294967295]))
        w = w + pumped(w, ctx.seed + i)
        for variant in (["n1", "n2", "r2t4", "r4t2"] if q else ["n1", "n2", "h0", "r2t4", "r4t2"]):
            ctx.replay(w, common.wrap(preamble), lambda it: False, variant=variant, defines=VARIANTS[variant], ordered=False, label="%s_%s" % (dn, variant), safety_only=True)
        total += w
    ctx.states = max(ctx.states, 1)
    ctx.distinct = set(classes)
    ctx.rule = ("TLC simulation of CoChaos (walks of 60 events over ~4000 event classes, one emission per walk), bytes marked -1 filled from the PRNG seeded with VERIF_SEED; "
                "every walk replayed on each build variant; distinct_nontrivial = number of distinct event classes that were executed")
