"""scenario enumeration of conforming SDO clients (C02: downloads, C03: uploads)"""
import common, vlib, sdo_common

def run(ctx, which):
    q = ctx.tier == "quick"
    cfg = {"dl": ("C02_scen.cfg", "C02_scen_t.cfg"), "ul": ("C03_scen.cfg", "C03_scen_t.cfg")}[which][0 if q else 1]
    ctx.assumptions += [
        "conforming client dialogues (scenario enumeration): object kinds u8/u16/u32/RO/WO, domains of 1..4000 bytes, strings of 1..890 bytes; block size of the server = 127 (real constant)",
        "a 'lost' block segment is never the last one of its block (a conforming client would then run into its timeout and abort, which C05 covers)",
        "response bytes that CiA 301 marks reserved / unused are not compared; object bytes are compared by an explicit dump after the confirmation and by a segmented read-back",
        "while a download is open the target object may change at any step (storage changes of any other object are a disagreement at every step)",
    ]
    outs = ctx.mc_parts("MCSsdoScen", cfg, 16)
    behs = []
    for o in outs:
        behs += vlib.records_to_behaviours(o)
    objs = sdo_common.model_dict("MCSsdoScen", "MCDict")
    ctx.extra["scenarios"] = len(behs)
    ctx.rule = ("each scenario (object, length, mode, size announcement, lost segment / block size and acknowledge plan) is one deterministic dialogue of a conforming client "
                "against the reference server; TLC checks the property on the dialogue in the model and prints it with the predicted responses; all are replayed on the C code")
    ctx.replay(behs, common.wrap(sdo_common.make_preamble(objs)), sdo_common.observe, ordered=True, label="scen_n1")
    # C02 clause "a transfer on one server is unaffected by traffic on another": the same dialogues, two at a
    # time on different objects, interleaved frame by frame on the two servers of a CO_SSDO_N = 2 build
    pairs = interleave(behs, ctx.seed, 150 if q else 1500)
    ctx.assumptions.append("independence of servers: pairs of dialogues on different objects are interleaved frame by frame on server 0 (600h+id) and server 1 (610h/590h) of a CO_SSDO_N = 2 build; every prediction must still hold")
    ctx.replay(pairs, common.wrap(sdo_common.make_preamble(objs, nsrv=2)), sdo_common.observe, variant="n2", defines=("CO_SSDO_N=2",), ordered=True, label="scen_two_servers")


def interleave(behs, seed, n):
    import random, copy
    from vlib import Beh
    rnd = random.Random(seed + 3)
    small = [b for b in behs if len(b.steps) <= 80]
    # a long partner (a block of up to 127 segments in flight on one server while the other one is busy): the two
    # transfer buffers are slices of one array, so an overlap only shows once a transfer is long enough
    long_ = [b for b in behs if 80 < len(b.steps) <= 420]
    out = []

    def touched(b):
        t = set()
        for st in b.steps:
            if st["e"][0] == "dump":
                t.add((st["e"][1], st["e"][2]))
            for it in st["x"]:
                if it and it[0] in ("chg?", "chg", "obj"):
                    t.add((it[1], it[2]))
            e = st["e"]
            if e[0] == "rx" and len(e) >= 7:
                c = e[3]
                if c == 0x40 or (c & 0xF0) == 0x20 or (c & 0xF9) == 0xC0 or (c & 0xE3) == 0xA0:      # initiate requests name an object
                    t.add((e[4] | (e[5] << 8), e[6]))
        return t

    def on_server1(st):
        st = copy.deepcopy(st)
        if st["e"][0] == "rx" and st["e"][1] == 1537:
            st["e"][1] = 0x610
        for it in st["x"]:
            if it and it[0] == "tx" and it[1] == 1409:
                it[1] = 0x590
        return st

    tries = 0
    while len(out) < n and tries < 20 * n and len(small) > 1:
        tries += 1
        a, b = rnd.sample(small, 2)
        if long_ and tries % 3 == 0:
            a = rnd.choice(long_)
            if rnd.random() < 0.5:
                a, b = b, a
        if touched(a) & touched(b):
            continue
        sa, sb = list(a.steps), [on_server1(x) for x in b.steps]
        steps = []
        while sa or sb:
            if sa and (not sb or rnd.random() < 0.5):
                steps.append(sa.pop(0))
            else:
                steps.append(sb.pop(0))
        out.append(Beh(a.cfg, steps, 0, "pair"))
    return out
