"""scenario enumeration of conforming SDO clients (C02: downloads, C03: uploads)"""
import common, vlib, sdo_common

def run(ctx, which):
    q = ctx.tier == "quick"
    cfg = {"dl": ("C02_scen.cfg", "C02_scen_t.cfg"), "ul": ("C03_scen.cfg", "C03_scen_t.cfg")}[which][0 if q else 1]
    ctx.assumptions += [
        "conforming client dialogues (scenario enumeration): object kinds u8/u16/u32/RO/WO, domains of 1..4000 bytes, strings of 1..890 bytes; block size of the server = 127 (real constant)",
        "a 'lost' block segment is never the last one of its block (a conforming client would then run into its timeout and abort, which C05 covers)",
        "response bytes that CiA 301 marks reserved / unused are not compared; object bytes are compared by an explicit dump after the confirmation and by a segmented read-back",
        "while a download is open the target object may change at any step (storage changes of any other object are a disagreement at every step)",
    ]
    outs = ctx.mc_parts("MCSsdoScen", cfg, 16)
    behs = []
    for o in outs:
        behs += vlib.records_to_behaviours(o)
    objs = sdo_common.model_dict("MCSsdoScen", "MCDict")
    ctx.extra["scenarios"] = len(behs)
    ctx.rule = ("each scenario (object, length, mode, size announcement, lost segment / block size and acknowledge plan) is one deterministic dialogue of a conforming client "
                "against the reference server; TLC checks the property on the dialogue in the model and prints it with the predicted responses; all are replayed on the C code")
    ctx.replay(behs, common.wrap(sdo_common.make_preamble(objs)), sdo_common.observe, ordered=True, label="scen_n1")
