"""common driver of the CoNode-based checks"""
import common, node_common

CB = ("modechg", "resetreq", "canrx", "pdorx", "pdotx", "hbevent", "hbchange", "syncupd")

def observe(it):
    if it[0] == "tx":
        return True
    if it[0] == "cb":
        return it[1] in CB
    return it[0] in ("ret", "ok", "err", "acts")

def tick_unordered(e):
    """actions falling due on the same tick may run in any order (not a property); everything else is compared in order"""
    return not (e and e[0] == "tick")

def cfgfix(cfg):
    return dict(hc=[[a, b] for a, b in cfg.get("hc", [])])

def run(ctx, pid, module="MCNode", quick_edges=12000, walks=(100, 5000), depth=45, ordered=tick_unordered, genq=None, obs=observe, fix=cfgfix,
        mc_timeout=1500, gen_timeout=2500):
    q = ctx.tier == "quick"
    ctx.mc(module, "%s_mc.cfg" % pid, timeout=mc_timeout)
    behs = ctx.gen_edges(module, (genq if (q and genq) else "%s_gen.cfg" % pid), timeout=gen_timeout)
    if q:
        behs = common.thin(behs, quick_edges, ctx.seed)
    pre = node_common.make_preamble(fix)
    ctx.replay(behs, pre, obs, ordered=ordered, label="edges")
    w = ctx.gen_walks(module, "%s_walk.cfg" % pid, num=walks[0] if q else walks[1], depth=depth)
    ctx.replay(w, pre, obs, ordered=ordered, label="walks")
    node_id_variant(ctx, module, pid, pre, obs, ordered, walks, depth, gen_timeout)


def node_id_variant(ctx, module, pid, pre, obs, ordered, walks, depth, gen_timeout, old="NodeId = 5", new="NodeId = 127"):
    """the same model with the largest node id (identifiers 700h+id, 580h+id, 600h+id, NMT addressing): walks in the quick
    tier, walks and the whole edge cover in the thorough tier"""
    q = ctx.tier == "quick"
    w = ctx.gen_walks(module, common.cfg_variant("%s_walk.cfg" % pid, [(old, new)], "n127"), num=walks[0] if q else walks[1], depth=depth)
    ctx.replay(w, pre, obs, ordered=ordered, label="walks_node127")
    if not q:
        behs = ctx.gen_edges(module, common.cfg_variant("%s_gen.cfg" % pid, [(old, new)], "n127"), timeout=gen_timeout)
        ctx.replay(behs, pre, obs, ordered=ordered, label="edges_node127")
