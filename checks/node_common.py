"""dictionary / preamble for the node-level checks (C09..C16, C20)"""
import common

def le(v, n):
    return " ".join(str((v >> (8 * i)) & 255) for i in range(n))

def link(idx, sub, bits):
    return (idx << 16) | (sub << 8) | bits

def std_dict(cfg):
    """sorted list of (idx, sub, line). cfg keys (all optional except n):
       n nodeid, hb 1017h ms, hc [[node,time],...], sync [cobid, cycle_us], emcyid, hist depth,
       rpdo [[id, type, [maps...]],...], tpdo [[id, type, inhibit, event, [maps...]],...], objs [[idx,sub,flags,type,bytes...]...]"""
    n = cfg["n"]
    E = []
    def add(idx, sub, flags, typ, args):
        E.append((idx, sub, "obj %d %d %d %d %s" % (idx, sub, flags, typ, args)))
    add(0x1000, 0, 130, 2, "0 0 0 0")
    add(0x1001, 0, 2, 0, "0")
    hist = cfg.get("hist", 2)
    if hist:
        add(0x1003, 0, 3, 15, "0")
        for k in range(1, hist + 1):
            add(0x1003, k, 2, 15, "0 0 0 0")
    sync = cfg.get("sync", [0x80, 0])
    if sync is not None:
        add(0x1005, 0, 3, 13, le(sync[0], 4))
        add(0x1006, 0, 3, 14, le(sync[1], 4))
    if cfg.get("emcyid", 0x80) is not None:
        add(0x1014, 0, 0x43, 16, le(cfg.get("emcyid", 0x80), 4))
    hc = cfg.get("hc", [])
    if hc:
        add(0x1016, 0, 130, 6, str(len(hc)))
        for k, (node, time) in enumerate(hc):
            add(0x1016, k + 1, 3, 6, "%d %d" % (time, node))
    if cfg.get("hb") is not None:
        add(0x1017, 0, 3, 5, le(cfg["hb"], 2))
    add(0x1018, 0, 130, 0, "4")
    for k, v in enumerate(cfg.get("ident", [0x11, 0x22, 0x33, 0x44])):
        add(0x1018, k + 1, 2, 2, le(v, 4))
    add(0x1200, 0, 130, 0, "2")
    add(0x1200, 1, 66, 2, le(0x600, 4))
    add(0x1200, 2, 66, 2, le(0x580, 4))
    if cfg.get("csdo"):
        # csdo_slot = 1 (CO_CSDO_N = 2 builds): the client under test is client #1 (1281h); client #0 talks to another server node
        slot = cfg.get("csdo_slot", 0)
        for k in range(slot + 1):
            srv = cfg["csdo"] if k == slot else cfg["csdo"] - 1
            add(0x1280 + k, 0, 130, 0, "3")
            add(0x1280 + k, 1, 3, 2, le(0x600, 4))          # (the stack adds the server's node id of sub-index 3)
            add(0x1280 + k, 2, 3, 2, le(0x580, 4))
            add(0x1280 + k, 3, 3, 0, str(srv))
    rp = cfg.get("rpdo", [[0x200 + n, 254, [link(0x2101, 0, 8)]]])
    rp = [list(x) + [len(x[2])] if len(x) < 4 else list(x) for x in rp]
    # rshift / tshift: the PDOs occupy slots shift.. instead of 0.. (builds with unequal CO_RPDO_N / CO_TPDO_N: the highest slots)
    rs, ts = cfg.get("rshift", 0), cfg.get("tshift", 0)
    rp = [(k + rs, v) for k, v in enumerate(rp)]
    for k, (cid, typ, maps, cnt) in rp:
        add(0x1400 + k, 0, 130, 0, "2")
        add(0x1400 + k, 1, 3, 8, le(cid, 4))
        add(0x1400 + k, 2, 3, 9, str(typ))
    for k, (cid, typ, maps, cnt) in rp:
        nmap = max(len(maps), cfg.get("mapslots", 0))
        add(0x1600 + k, 0, 3, 10, str(cnt))
        for j in range(nmap):
            add(0x1600 + k, j + 1, 3, 11, le(maps[j] if j < len(maps) else 0, 4))
    tp = cfg.get("tpdo", [[0x40000180 + n, 254, 0, 0, [link(0x2100, 0, 8)]]])
    tp = [list(x) + [len(x[4])] if len(x) < 6 else list(x) for x in tp]
    tp = [(k + ts, v) for k, v in enumerate(tp)]
    for k, (cid, typ, inh, evt, maps, cnt) in tp:
        add(0x1800 + k, 0, 130, 0, "5")
        add(0x1800 + k, 1, 3, 8, le(cid, 4))
        add(0x1800 + k, 2, 3, 9, str(typ))
        add(0x1800 + k, 3, 3, 1, le(inh, 2))
        add(0x1800 + k, 5, 3, 12, le(evt, 2))
    for k, (cid, typ, inh, evt, maps, cnt) in tp:
        nmap = max(len(maps), cfg.get("mapslots", 0))
        add(0x1A00 + k, 0, 3, 10, str(cnt))
        for j in range(nmap):
            add(0x1A00 + k, j + 1, 3, 11, le(maps[j] if j < len(maps) else 0, 4))
    for o in cfg.get("objs", [[0x2100, 0, 7, 0, 0], [0x2101, 0, 7, 0, 0]]):
        add(o[0], o[1], o[2], o[3], " ".join(str(x) for x in o[4:]))
    E.sort(key=lambda e: (e[0], e[1]))
    return [e[2] for e in E]

def make_preamble(extra=None, start=True):
    def pre(cfg):
        c = dict(cfg)
        if extra:
            c.update(extra(cfg))
        lines = ["set nodeid %d" % c["n"], "set freq %d" % c.get("freq", 1000)]
        for reg, code in c.get("emcy", [[0, 0x1000]]):
            lines.append("emcy %d %d" % (reg, code))
        lines += std_dict(c)
        lines.append("init")
        if start:
            lines.append("start")
        return lines
    return common.wrap(pre)
