"""C04 -- every SDO request is answered once, for the named object, with the right verdict."""
import sdo_alpha
VARIANTS = sdo_alpha.VARIANTS
def run(ctx):
    sdo_alpha.run(ctx, "C04")
    # the verdict of a request to a communication object depends on the state of the service it configures (PDO / SYNC / heartbeat / EMCY
    # objects written while their service runs): expedited requests to those objects in the node as a whole (product model CoFull)
    import full_check
    full_check.run(ctx, 400 if ctx.tier == "quick" else 6000)
