"""C04 -- every SDO request is answered once, for the named object, with the right verdict."""
import sdo_alpha
VARIANTS = sdo_alpha.VARIANTS
def run(ctx):
    sdo_alpha.run(ctx, "C04")
