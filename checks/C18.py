"""C18 -- LSS slave state machine (CoLss / CoLssGen)."""
import common, node_common

def observe(it):
    if it[0] == "cb":
        return it[1] in ("lssstore", "lssload", "canrx")
    return it[0] == "tx"

def fix(cfg):
    return dict(ident=list(cfg["ident"]), hb=0, hc=[])

def run(ctx):
    q = ctx.tier == "quick"
    ctx.assumptions += [
        "identity 11h/22h/33h/44h; arguments: matching, off by one in both directions, differing in a high byte; all command specifiers of the service table except 'activate bit timing' (15h: it changes the NMT mode and arms a timer - its observations are not asserted, it is part of the C01 alphabet), two unknown specifiers; NMT reset communication / reset node / start / stop interleaved",
        "switch state global with a mode byte other than 0/1 is a named deviation (not asserted)",
        "the shared progress variable of selective and identify sequences is modelled as in the code (the property does not speak about interleaved sequences)",
        "generation VIEW drops the configured / persisted bit rates (pure data, visible only as COLssStore arguments)",
    ]
    ctx.mc("MCLss", "C18_mcq.cfg" if q else "C18_mc.cfg", timeout=2000)
    behs = ctx.gen_edges("MCLss", "C18_genq.cfg" if q else "C18_gen.cfg", timeout=3000)
    if q:
        behs = common.thin(behs, 15000, ctx.seed)
    pre = node_common.make_preamble(fix)
    ctx.replay(behs, pre, observe, ordered=True, label="edges")
    w = ctx.gen_walks("MCLss", "C18_walk.cfg", num=60 if q else 1500, depth=45, timeout=2000)
    ctx.replay(w, pre, observe, ordered=True, label="walks")
