"""C06 -- dictionary lookup and typed / buffer access (CoDict / CoDictGen)."""
import common, vlib

def preamble(cfg):
    lines = ["set nodeid %d" % cfg["n"], "set dictmax %d" % max(1, len(cfg["d"]))]
    for e in cfg["d"]:
        lines.append("obj " + " ".join(str(x) for x in e))
    lines.append("init")
    return lines

def observe(it):
    return it[0] in ("ret", "err", "ok", "buf", "chg", "cnts")

def run(ctx):
    q = ctx.tier == "quick"
    ctx.assumptions += [
        "lookup: all 2^11 (quick) / 2^14 (thorough) sorted dictionaries over a key universe with keys adjacent in index and sub-index and at both ends of the key space; flags varied in entries and in requests",
        "index 0 / sub-index 0 with non-zero flags is not looked up (index 0000h is reserved; key 0 means 'no key' in this API)",
        "typed access: widths 1/2/4 x direct/referenced x node-id flag x boundary values x node id {1,2,127} (thorough: every node id 1..127, every 8-bit value, 36 16-bit and 21 32-bit values); buffer access to domains and strings of 3/5/300 bytes (thorough: also 256 and 4000) with lengths around 0, the size, the 8-bit boundary 255/256/257 (thorough: up to 4001)",
        "buffer access to an integer entry with a length other than its width is a named deviation (IntBufOtherLen) and not asserted",
        "the dictionary array is a heap block of exactly n+1 entries (ASan red zones on both sides); empty strings / zero-size domains are outside the alphabet (size 0 is this stack's 'invalid' sentinel)",
    ]
    r = ctx.mc("MCDict", "C06_q.cfg" if q else "C06_t.cfg", workers=1, timeout=3000)
    behs = vlib.records_to_behaviours(r["out"])
    ctx.extra["assume_instances"] = len(behs)
    ctx.rule = ("TLC evaluates the specification's ASSUMEs (lookup correctness for every dictionary x key, round trip, moved-byte rule) exhaustively over the "
                "configured constants and prints one behaviour per dictionary / (entry, value, node id) / (entry, length, pattern); each is replayed on the C code")
    ctx.replay(behs, common.wrap(preamble), observe, ordered=True, label="scenarios")
