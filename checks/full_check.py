"""the node as a whole: walks of the product model CoFull (NMT + heartbeat + PDO + SYNC + EMCY + SDO client in one node, one
timer pool, one mode) replayed in lockstep, each ended by a probe that looks at every service, resets the node and looks again"""
import common, node_common, node_check, pdo_check

CB = ("modechg", "resetreq", "canrx", "pdorx", "pdotx", "hbevent", "hbchange", "csdo")

def observe(it):
    if it[0] == "tx":
        return True
    if it[0] == "cb":
        return it[1] in CB
    if it[0] == "chg":
        return 0x2100 <= it[1] <= 0x21FF or it[1] == 4097
    return it[0] in ("ret", "ok", "err", "acts", "ubuf", "fire")

def fix(cfg):
    d = pdo_check.fix(cfg)
    d.update(hb=cfg["hb"], hc=[[a, b] for a, b in cfg["hc"]], emcy=[[r, c] for r, c in cfg["tbl"]], hist=cfg["depth"], csdo=cfg["srv"])
    return d

ASSUMPTION = ("product model CoFull (walks): NMT, heartbeat producer and two consumers, application timers, two TPDOs (event driven with inhibit / event "
              "time, synchronous), two RPDOs (asynchronous, synchronous), SYNC consumer / producer, EMCY with history, one SDO client with timeouts, "
              "expedited SDO access to the configuration objects - all in one node with one timer pool of 16 and one NMT mode; the component step "
              "operators are the ones of the per-property models (INSTANCE); every walk ends with a look at every service, a reset communication "
              "and the same look again; TLC checks on every step: the components agree on the mode, reset = fresh start of the whole product, "
              "service frames only in permitted states, never more armed actions than timer slots - on every step of every walk, and exhaustively (breadth-first) for a reduced alphabet of 18 (thorough: 22) letters; two configurations (node id 5 / 127, producers on / off at boot, PDO types 254+2 / 255+1, dummy mapping, EMCY tables of 4 / 12 errors)")

def run(ctx, num, depth=45, cfg="Full_walk.cfg", label="product_walks", module="MCFull"):
    if ASSUMPTION not in ctx.assumptions:
        ctx.assumptions.append(ASSUMPTION)
    pre = node_common.make_preamble(fix)
    if module == "MCFull" and cfg == "Full_walk.cfg":
        # exhaustive search of the product over a small alphabet (one letter per service + the events that couple them): InvFull on every
        # reachable state (quick: 18 letters, 5 * 10^4 states; thorough: 22 letters, 1.2 * 10^6 states / 1.4 * 10^7 transitions)
        ctx.mc("MCFull", "Full_mc.cfg" if ctx.tier == "quick" else "Full_mct.cfg", timeout=1500, heap="16g")
    seed0 = ctx.seed
    ctx.seed = seed0 * 100 + int(ctx.pid[1:])          # every property gets its own walks
    try:
        w = ctx.gen_walks(module, cfg, num=num, depth=depth * 2 + 2, timeout=900)       # (a walk step = group choice + letter)
    finally:
        ctx.seed = seed0
    ctx.replay(w, pre, observe, ordered=node_check.tick_unordered, label=label)
    if module == "MCFull" and cfg == "Full_walk.cfg":
        # a build with more RPDOs than TPDOs (CO_RPDO_N = 4, CO_TPDO_N = 2): the two RPDOs of the product sit in the highest slots (the SDO
        # frames naming 14xxh / 16xxh are re-indexed, nothing else changes); the loops over both PDO tables run in the context of every service
        sub = common.thin(w, max(200, len(w) // 4), ctx.seed + 5)
        ctx.replay(pdo_check.shifted(sub, 2, 0), pre, observe, variant="r4t2", defines=pdo_check.UNEQUAL["r4t2"], ordered=node_check.tick_unordered, label=label + "_r4t2")
        # second configuration: node id 127, SYNC producer on at boot, heartbeat producer off at boot, TPDO of type 255 with an event time
        # only, TPDO on every SYNC, synchronous RPDO, asynchronous RPDO with a dummy entry, EMCY table of 12 errors
        run(ctx, max(40, num // 2), depth, "FullB_walk.cfg", label + "_B", "MCFullB")
    return w
