"""C15 -- error state, error register, EMCY frames and error history (CoEmcy / CoEmcyGen)."""
import common, node_common, node_check

def observe(it):
    if it[0] == "chg":
        return it[1] == 4097          # the error register; 1003h is observed through SDO reads
    if it[0] == "cb":
        return it[1] == "canrx"
    return it[0] in ("tx", "ret")

def fix(cfg):
    return dict(emcy=[[r, c] for r, c in cfg["tbl"]], hist=cfg["depth"], hc=[], hb=0)

def run(ctx):
    q = ctx.tier == "quick"
    ctx.assumptions += [
        "error table of 4 errors with register bits (0,1,1,2) - class sharing and the generic bit - (5 errors incl. bit 7 in the walks), history depth 2 (3 in the walks); set with and without manufacturer bytes, clear, reset silent/loud, count, get, reads of 1001h/1003h, write of 0/1 to 1003h:0, 1014h set invalid/valid/other identifier, NMT PRE-OP/OP/STOPPED",
        "the reference derives register and count from the set of active errors (the property's definition); the C code's per-class counters are compared with it at every step (register change observed as storage change of 1001h, count via COEmcyCnt)",
        "configuration C15W: a table of 32 errors (CO_EMCY_N), letters on the identifiers 0, 8, 16, 24, 31 (byte boundaries of the error-status storage), history depth 1", "error numbers >= CO_EMCY_N and reads of history sub-indices above the fill level are not generated / not asserted; 1014h with another identifier while invalid is not asserted",
    ]
    ctx.mc("MCEmcy", "C15_mc.cfg")
    behs = ctx.gen_edges("MCEmcy", "C15_genq.cfg" if q else "C15_gen.cfg", timeout=2500)
    if q:
        behs = common.thin(behs, 15000, ctx.seed)
    pre = node_common.make_preamble(fix)
    ctx.replay(behs, pre, observe, ordered=True, label="edges")
    w = ctx.gen_walks("MCEmcy", "C15_walk.cfg", num=100 if q else 4000, depth=45)
    ctx.replay(w, pre, observe, ordered=True, label="walks")
    # error identifiers above the number of error classes (a table of 12 errors)
    ctx.mc("MCEmcy", "C15H_mc.cfg")
    bh = ctx.gen_edges("MCEmcy", "C15H_gen.cfg", timeout=2500)
    ctx.replay(common.thin(bh, 6000, ctx.seed) if q else bh, pre, observe, ordered=True, label="edges_high_ids")
    # the whole table of CO_EMCY_N = 32 errors: identifiers at the byte boundaries of the error-status storage, across resets
    ctx.mc("MCEmcy", "C15W_mc.cfg")
    bw = ctx.gen_edges("MCEmcy", "C15W_gen.cfg", timeout=2500)
    ctx.replay(common.thin(bw, 5000, ctx.seed) if q else bw, pre, observe, ordered=True, label="edges_table32")
    # EMCY identifier 80h + node id, 1014h with the node-id flag: the same model with the largest node id
    node_check.node_id_variant(ctx, "MCEmcy", "C15", pre, observe, True, (100, 4000), 45, 2500)
    # next to every other service and timer of the node (product model CoFull)
    import full_check
    full_check.run(ctx, 400 if q else 6000)

