"""frame-alphabet exploration of the SDO server (C04, C05; SDO part of C01)"""
import common, vlib, sdo_common

VARIANTS = {"n2": ("CO_SSDO_N=2",), "default": (), "h0": ("CO_VERIF_SDO_BUF_SEG=3",), "h0n2": ("CO_VERIF_SDO_BUF_SEG=3", "CO_SSDO_N=2")}

def preamble_for(objs):
    base = sdo_common.make_preamble(objs)
    def pre(cfg):
        lines = base(cfg)
        # application abort code of the "app" object (0609 0031h), set after start
        return lines + ["testabort 49 0 9 6"]
    return pre

def run(ctx, pid):
    q = ctx.tier == "quick"
    ctx.assumptions += [
        "alphabet: 48 (quick) / 106 (thorough) request frame classes derived from the command decoder, applied in every reachable protocol state; multiplexer classes: u32 rw/ro/wo, u8, domains of 9 and 30 bytes, strings of 3 and 10 bytes, an object refused by the application, missing sub-index, missing index (above, below all keys)",
        "edge cover runs on the H0 build variant (3 segments per block, hook in co_sdo.h) so that multi-block transfers, flushes and retransmissions are reached within the bounded model; C02/C03 scenarios cover the real block size",
        "VIEW = control projection of the server state (object / payload bytes kept out of the fingerprint)",
        "where the properties leave the reaction open (client abort acknowledgement; frames that do not belong to the open transfer; non-conforming segment fill) the step is not compared and comparison resumes after the next client abort; objects such a transfer may have touched are 'unknown' (wildcards) afterwards",
    ]
    ctx.mc("MCSsdoGen", "C04_mc.cfg")
    objs = sdo_common.model_dict("MCSsdoGen", "MCDict")
    pre = common.wrap(preamble_for(objs))
    if pid == "C04":
        gens = [("C04_genq.cfg" if q else "C04_gen.cfg", "edges_h0")]
        nwalk = 60 if q else 1500
    else:
        ctx.assumptions.append("C05 probe after every edge: (upload segment request, client abort | NMT reset communication), then a fresh segmented download + read-back, expedited write/read and a two-block block upload; "
                               "letters that leave the control state unchanged are pumped (8x quick / 40x thorough; the H0 transfer buffer is 21 bytes) before the probe")
        gens = [("C05_genq.cfg" if q else "C05_gen.cfg", "edges_pump_h0"), ("C05_genr.cfg" if q else "C05_genrt.cfg", "edges_resetprobe_h0")]
        nwalk = 40 if q else 1500
    for cfg, label in gens:
        behs = ctx.gen_edges("MCSsdoGen", cfg, timeout=3000)
        ctx.replay(behs, pre, sdo_common.observe, variant="h0", defines=VARIANTS["h0"], ordered=True, label=label)
    walks = ctx.gen_walks("MCSsdoGen", "C04_walk.cfg", num=nwalk, depth=35, timeout=3000)
    ctx.replay(walks, pre, sdo_common.observe, variant="h0", defines=VARIANTS["h0"], ordered=True, label="walks_h0")
    # direction code -> spec: recorded dialogues of a PRNG client validated by TLC against CoSsdo (CoSsdoTrace)
    import sdo_trace
    sdo_trace.run(ctx, 700 if q else 25000, ndlg=10)
    sdo_trace.run(ctx, 400 if q else 15000, ndlg=10, nsrv=2)      # one PRNG client per server of a CO_SSDO_N = 2 build
