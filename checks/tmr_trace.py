"""direction code -> spec for the timer manager: record traces of the real code under random preemption
injection (harness/tmr_trace.c) and let TLC validate them against CoTmrPreTrace"""
import os, subprocess
import vlib

def build():
    bdir = os.path.join(vlib.OUT, "build", "tmrtrace")
    os.makedirs(bdir, exist_ok=True)
    exe = os.path.join(bdir, "tt")
    cmd = ["clang", "-std=gnu99", "-g", "-O1", "-w", "-fsanitize=address,undefined", "-fno-sanitize=alignment", "-fno-sanitize-recover=undefined",
           "-D" + vlib.GUARD] + ["-I" + d for d in vlib.include_dirs()] + vlib.stack_sources() + [os.path.join(vlib.VERIF, "harness", "tmr_trace.c"), "-o", exe]
    r = subprocess.run(cmd, capture_output=True, text=True)
    if r.returncode != 0:
        raise vlib.Infra("compile error (tmr_trace):\n" + r.stderr[-2000:])
    return exe

def run(ctx, plans):
    """plans: list of (pool size, operations, cfg, number of traces)"""
    from concurrent.futures import ThreadPoolExecutor
    exe = build()
    tdir = os.path.join(vlib.OUT, "traces", ctx.pid)
    os.makedirs(tdir, exist_ok=True)
    jobs = []
    for (mx, nops, cfg, ntr) in plans:
        for k in range(ntr):
            jobs.append((mx, nops, cfg, ctx.seed * 1000 + k + 17 * mx))
    env = dict(os.environ, ASAN_OPTIONS="detect_leaks=0:exitcode=77", UBSAN_OPTIONS="halt_on_error=1:exitcode=76")

    def one(job):
        mx, nops, cfg, seed = job
        tf = os.path.join(tdir, "t_%d_%d.ndjson" % (mx, seed))
        # (a trace of 3000 operations takes well under a second; a driver that does not come back means the code under test loops)
        limit = max(30, nops // 200)
        try:
            with open(tf, "w") as fo:
                r = subprocess.run([exe, str(mx), str(nops), str(seed)], stdout=fo, stderr=subprocess.PIPE, env=env, text=True, timeout=limit, preexec_fn=vlib._die_with_parent)
        except subprocess.TimeoutExpired:
            return (job, tf, 0, "hang: the recorded run did not end within %d s (unbounded loop in the timer manager)" % limit)
        nev = sum(1 for _ in open(tf))
        if r.returncode != 0:
            return (job, tf, nev, "crash rc=%d %s" % (r.returncode, r.stderr[-300:]))
        for attempt in (1, 2):          # a rejection is believed only if an immediate re-run repeats it
            t = vlib.run_tlc("CoTmrPreTrace", cfg, workers=1, env={"TRACE": tf}, timeout=900, deadlock=True, heap="3g",
                             outfile=os.path.join(vlib.OUT, "tlc", "trace_%d_%d.out" % (mx, seed)))
            if t["rc"] == 0 and not t["violation"]:
                os.remove(tf)
                return (job, tf, nev, None)
            if t["rc"] not in (0, 12, 13) and "Postcondition" not in (t["tail"] or "") and "violated" not in (t["tail"] or ""):
                raise vlib.Infra("TLC failed on trace %s: rc=%s %s" % (tf, t["rc"], t["tail"]))
        return (job, tf, nev, "rejected at event %s: %s" % (t["depth"], (t["tail"] or "").replace("\n", " ")[:200]))

    with ThreadPoolExecutor(8) as ex:
        res = list(ex.map(one, jobs))
    nev = sum(r[2] for r in res)
    ctx.traces_validated += len(res)
    ctx.steps += nev
    ctx.mc_runs.append(dict(mode="trace-validation", module="CoTmrPreTrace", traces=len(res), events=nev))
    ctx.extra["recorded_trace_events"] = ctx.extra.get("recorded_trace_events", 0) + nev
    for job, tf, n, why in res:
        if why:
            m = vlib.Mismatch(0, 0, "trace:" + why[:60], [], [], ["trace", job[0], job[1], job[3]])
            from vlib import Beh
            ctx.violations.append((m, Beh(dict(trace=tf, why=why), [dict(e=["trace", tf], x=[])], 0), lambda c: [], "tmrtrace", "trace"))
    ctx.checkpoint()
