"""C19 -- SDO client transfers complete exactly once and leave nothing behind (CoCsdo / CoCsdoGen)."""
import common, node_common, vlib

def observe(it):
    if it[0] == "cb":
        return it[1] in ("csdo", "canrx")
    if it[0] == "tx":
        return it[1] == 1545
    return it[0] in ("ok", "err", "ret", "acts", "ubuf")

def fix(cfg):
    return dict(csdo=cfg["srv"], hb=0, hc=[], csdo_slot=cfg.get("csdo_slot", 0))

VARIANTS = {"default": (), "c2": ("CO_CSDO_N=2",)}

def second_client(behs):
    """the same behaviours on client #1 of a CO_CSDO_N = 2 build (client #0 exists and talks to another server)"""
    import copy
    from vlib import Beh
    out = []
    for b in behs:
        steps = copy.deepcopy(b.steps)
        for st in steps:
            e = st["e"]
            if e[0] in ("csdo_up", "csdo_down", "csdo_state", "csdo_find"):
                e[1] = 1
            for it in st["x"]:
                if it and it[0] == "cb" and it[1] == "csdo":
                    it[2] = 1
        out.append(Beh(dict(b.cfg, csdo_slot=1), steps, b.nprefix, "client1"))
    return out

def run(ctx):
    q = ctx.tier == "quick"
    ctx.assumptions += [
        "one client (1280h: server node 9), object 2100h:0; buffer sizes {1,4,5,7,8,14,15} in the exhaustive model, {255,256,263,264,2000} as complete conforming dialogues; timeouts {0 (none),2,3} ms at 1 kHz",
        "environment server: conforming answer, abort with matching / foreign multiplexer, wrong toggle, unknown command, wrong announced size, wrong multiplexer, silence (ticks)",
        "answers the statement does not rule on (abort with a foreign multiplexer, segments that do not fit the buffer, answers of the wrong transfer class) end the comparison of that behaviour; the local error code after a toggle / size / multiplexer mismatch is not asserted, only that the callback comes exactly once",
        "user buffers are heap blocks of exactly the requested size (ASan red zones); timer pool of 16, occupancy observed through the public CO_TMR structure",
    ]
    r = ctx.mc("MCCsdo", "C19_mc.cfg")
    pre = node_common.make_preamble(fix)
    scen = vlib.records_to_behaviours(r["out"])
    ctx.replay(scen, pre, observe, ordered=True, label="big_sizes")
    behs = ctx.gen_edges("MCCsdo", "C19_genq.cfg" if q else "C19_gen.cfg", timeout=3000)
    if q:
        behs = common.thin(behs, 12000, ctx.seed)
    ctx.replay(behs, pre, observe, ordered=True, label="edges")
    ctx.replay(second_client(common.thin(behs, 3000 if q else 40000, ctx.seed + 2) + scen), pre, observe, variant="c2", defines=VARIANTS["c2"], ordered=True, label="edges_second_client")
    w = ctx.gen_walks("MCCsdo", "C19_walk.cfg", num=60 if q else 2500, depth=40, timeout=2000)
    ctx.replay(w, pre, observe, ordered=True, label="walks")
    # direction code -> spec: a PRNG application with the harness's built-in SDO server, requests also from inside the
    # completion callback; recorded traces validated by TLC against CoCsdoTrace
    import csdo_trace
    ctx.assumptions.append("recorded traces (direction code -> spec): sizes 1..50 plus {100,255,256,259,263,264,500,2000}, timeouts {0,2,3,5,9} ms, server answers conforming or one of six deviations at random points, random idle gaps, requests issued from inside the completion callback (refused or accepted: both allowed, an accepted one must then complete like any other)")
    csdo_trace.run(ctx, 1200 if q else 40000)
    csdo_trace.run(ctx, 500 if q else 15000, client=1)
    # next to every other service and timer of the node (product model CoFull)
    import full_check
    full_check.run(ctx, 500 if q else 6000)

