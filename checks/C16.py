import pdo_check
def run(ctx):
    pdo_check.run(ctx, ["C16", "C16B"])
    # the PDO / SYNC services next to every other service and timer of the node (product model CoFull)
    import full_check
    full_check.run(ctx, 400 if ctx.tier == "quick" else 6000)
VARIANTS = {"default": (), "r4t2": ("CO_RPDO_N=4", "CO_TPDO_N=2"), "r2t4": ("CO_RPDO_N=2", "CO_TPDO_N=4")}
