import pdo_check
def run(ctx):
    pdo_check.run(ctx, ["C16", "C16B"])
VARIANTS = {"default": (), "r4t2": ("CO_RPDO_N=4", "CO_TPDO_N=2"), "r2t4": ("CO_RPDO_N=2", "CO_TPDO_N=4")}
