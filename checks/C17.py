"""C17 -- parameter store / restore, restarts and NVM faults (CoPara / CoParaGen)."""
import common, node_common

def observe(it):
    if it[0] == "chg":
        return it[1] == 65280
    if it[0] == "cb":
        return it[1] == "paradef"
    if it[0] == "tx":
        return it[1] == 1413
    return it[0] in ("nvmwr", "nvmrd", "ret", "pram", "nvm")

# network variables far up in the index space (more than 8000h above 1010h / 1011h, and more of them than entries below: the first probes
# of the dictionary search for 1010h:k / 1011h:k - store-all, restore-all, the loads at start and reset - land on them)
FAR = [[0x9010 + i, 0, 7, 0, i] for i in range(64)]

def preamble(cfg):
    gs = cfg["groups"]
    d = cfg["dflt"]
    lines = ["set nodeid %d" % cfg["n"]]
    g0 = gs[0]
    lines.append("para 0 %d %d %d %d 1 %s" % (g0["off"], g0["size"], g0["type"], 1 if g0["en"] else 0, " ".join(str(x) for x in d[g0["off"]:g0["off"] + g0["size"]])))
    for k, g in enumerate(gs[1:], start=1):
        if g["type"] == 0:          # a gap: this sub-index does not exist
            continue
        lines.append("paraalias %d 0 %d %d %d %d %d 1" % (k, g["off"] - g0["off"], g["off"], g["size"], g["type"], 1 if g["en"] else 0))
    objs = []
    for idx, typ in ((0x1010, 17), (0x1011, 18)):
        objs.append([idx, 0, 130, typ, len(gs)])
        for k in range(len(gs)):
            if gs[k]["type"] != 0:
                objs.append([idx, k + 1, 3, typ, k])
    lines += node_common.std_dict(dict(n=cfg["n"], hb=0, hc=[], objs=objs + [[0x2100, 0, 7, 0, 0], [0x2101, 0, 7, 0, 0]] + FAR))
    lines += ["init", "start"]
    return lines

def run(ctx):
    q = ctx.tier == "quick"
    ctx.assumptions += [
        "layouts: A one group (3 bytes, reset communication), B sub-index 1 = all + an application group (2 bytes, reset node) + a communication group (3 bytes), C as B with the communication group not enabled for storing on command, D as B with a gap in the sub-index list (sub-indices 1, 2, 4); groups share one RAM / NVM image (sub-index 1's group is the union of the others)",
        "events: 'save'/'load' and wrong signatures to every sub-index, RAM modifications, power cycle (RAM back to the compiled-in image, NVM kept), NMT reset node / communication, k-th next NVM driver call returning a short count (k = 1,2), CONodeGetErr",
        "NVM starts zeroed; a short count is modelled as a partial transfer of the first bytes",
        "the abort code of a refused signature / failed store is not asserted (the statement only demands a refusal)",
    ]
    cfgs = ["A", "C", "D"] if q else ["A", "B", "C", "D"]
    pre = common.wrap(preamble)
    for v in cfgs:
        ctx.mc("MCPara", "C17_mc%s.cfg" % v, timeout=2000)
        behs = ctx.gen_edges("MCPara", "C17_gen%s.cfg" % v, timeout=3000)
        if q:
            behs = common.thin(behs, 9000, ctx.seed)
        ctx.replay(behs, pre, observe, ordered=True, label="edges_" + v)
        w = ctx.gen_walks("MCPara", "C17_walk%s.cfg" % v, num=40 if q else 2000, depth=40, timeout=2000)
        ctx.replay(w, pre, observe, ordered=True, label="walks_" + v)
