"""dictionary / preamble shared by the SDO server checks (C01-C05)"""
import json, os, re, subprocess
import vlib

KIND_TYPE = {"dom": 3, "str": 4, "app": 19}

def obj_line(o):
    flags = (2 if o["r"] else 0) | (1 if o["w"] else 0) | o.get("hflags", 0)      # hflags: 80h direct storage, 40h node-id relative
    if o["kind"] == "int":
        t = o.get("htype", {1: 0, 2: 1, 4: 2}[len(o["data"])])      # htype: another object type of the harness with integer storage (7 = CO_TSDO_ID)
        args = o.get("stored", o["data"])          # stored: the raw value (the reference's data is what a client reads)
    elif o["kind"] == "dom":
        t = 3
        args = [len(o["data"])]            # default fill pattern of the harness = DomPat of the spec
    elif o["kind"] == "str":
        t = 4
        args = o["data"]
    else:
        t = 19
        args = o["data"]
    return "obj %d %d %d %d %s" % (o["idx"], o["sub"], flags, t, " ".join(str(x) for x in args))

_dict_cache = {}

def model_dict(module, name):
    """evaluate a dictionary constant of an MC module with TLC (so that the harness dictionary is
    literally the one the specification talks about)"""
    key = (module, name)
    if key in _dict_cache:
        return _dict_cache[key]
    tmp = os.path.join(vlib.SPEC, "_Eval_%s_%s.tla" % (module, name))
    with open(tmp, "w") as f:
        f.write("---- MODULE _Eval_%s_%s ----\nEXTENDS %s\nASSUME PrintT(<<\"VAL\", ToJson(%s)>>)\n====\n" % (module, name, module, name))
    cfg = tmp[:-4] + ".cfg"
    base_cfg = [l for l in open(os.path.join(vlib.SPEC, EVAL_CFG[module])).read().split("\n")]
    with open(cfg, "w") as f:
        f.write("\n".join(base_cfg))
    r = vlib.run_tlc(os.path.basename(tmp)[:-4], cfg, workers=1, timeout=300)
    vals = list(vlib.tlc_lines(r["out"], "VAL"))
    for x in (tmp, cfg):
        os.remove(x)
    if not vals:
        raise vlib.Infra("cannot evaluate %s!%s: %s" % (module, name, r["tail"]))
    _dict_cache[key] = json.loads(vals[0])
    return _dict_cache[key]

EVAL_CFG = {"MCSsdoScen": "C02_tiny.cfg", "MCSsdoGen": "C04_gen.cfg"}

def infra_objs(nodeid, nsrv=1):
    """mandatory objects + SDO server parameters (sorted by index)"""
    lines = ["obj 4096 0 130 2 0 0 0 0", "obj 4097 0 2 0 0"]
    for k in range(nsrv):
        if k == 0:
            lines += ["obj 4608 0 130 0 2", "obj 4608 1 66 2 0 6 0 0", "obj 4608 2 66 2 128 5 0 0"]
        else:
            rx = 0x600 + 0x10 * k
            tx = 0x580 + 0x10 * k
            lines += ["obj %d 0 130 0 2" % (4608 + k),
                      "obj %d 1 3 7 %d %d 0 0" % (4608 + k, rx & 255, rx >> 8),
                      "obj %d 2 3 7 %d %d 0 0" % (4608 + k, tx & 255, tx >> 8)]
    return lines

def make_preamble(objs, nsrv=1):
    def pre(cfg):
        n = cfg["n"]
        return ["set nodeid %d" % n] + infra_objs(n, nsrv) + [obj_line(o) for o in objs] + ["init", "start"]
    return pre

def observe(it):
    # an SDO frame is claimed by the server: it must never reach the application callback (C09)
    return it[0] in ("tx", "chg", "obj") or (it[0] == "cb" and it[1] == "canrx")
