HOOK_COMMITS = ["549b384"]
NOTES = ("One explicit TLA+ specification per component under spec/, bound to the C code by replaying TLC-generated behaviours "
         "(predicted observations per step) through harness/vh.c and, for wide value domains, by validating recorded traces. "
         "Genuine defects found are listed in known_findings.json (status fixed / known).")
NOT_APPLICABLE = {}
MC_NOTE = ("Trusted: TLC, the harness glue (drivers, callbacks, dictionary builder in harness/vh.c), the comparator in lib/vlib.py. "
           "Bounded: the abstract state x event space is exhaustive only for the constants named in the evidence assumptions; "
           "the C code is bound to the specification on every generated behaviour, not beyond.")
CHECKS = {
 "C07": dict(
   text="TLC checks exhaustively (pool 3, times 0..3; pool 4 in the thorough tier) that the delta-list algorithm fires exactly the actions of a ghost reference schedule, "
        "conserves the pools and fails creation iff no slot is free or both times are zero; every edge of that state graph plus a drain probe, and random walks with pool 4, "
        "are replayed on the real co_tmr.c and compared step by step (return classes, set of fired callbacks, free slots); the tick conversion is checked exact and monotonic over all 65536 times for 8 frequencies in the spec and compared with COTmrGetTicks on ~10^4 exact cases.",
   note=MC_NOTE, technique="TLA+/TLC model checking + TLC-generated behaviours replayed against the C code", ref="DESIGN.md section 8, C07"),
 "C08": dict(
   text="TLC checks an interleaving model in which the tick interrupt may fire between any two lock-delimited sub-steps of COTmrProcess (pop / act / callback) and around create/delete: pool conservation incl. the chain held by a running Process, "
        "no callback without an owed expiry, none after a confirmed delete, nothing owed when Process returns, delete of an elapsed-unprocessed action succeeds. The same sub-step function, folded over explicit injection schedules, "
        "generates behaviours (edge cover + walks) that the harness realises by calling COTmrService from inside its COTmrLock/COTmrUnlock callbacks; fired callbacks, service results, return values and pool conservation are compared in order.",
   note=MC_NOTE + " Preemption is modelled at lock boundaries only (critical sections assumed atomic w.r.t. the interrupt).",
   technique="TLA+/TLC interleaving model + TLC-generated injection schedules replayed against the C code", ref="DESIGN.md section 8, C08"),
 "C06": dict(
   text="The CoDict specification transcribes the binary search with its three integers and states the typed / buffer access rules on little-endian byte tuples; TLC evaluates, exhaustively over the configured constants, that lookup finds exactly the present keys "
        "and never probes beyond the end mark for every sorted dictionary over the key universe, that typed access round-trips and is width-exact, and that buffer access moves min(len,size) bytes. One behaviour per dictionary / (entry,value,node id) / (entry,length,pattern), "
        "with the predicted return values, buffer contents, storage changes and per-entry initialisation counts, is replayed on the C code with the dictionary array allocated exactly (ASan red zones).",
   note=MC_NOTE + " The dictionary part has no interesting state machine: TLC is used as an exhaustive evaluator of universally quantified ASSUMEs and as behaviour generator (states=1 is therefore expected in the evidence; evaluations / assume_instances give the real volume).",
   technique="TLA+ specification evaluated exhaustively by TLC (ASSUME) + generated scenarios replayed against the C code", ref="DESIGN.md section 8, C06"),
 "C02": dict(
   text="CoSsdo is a reference SDO server (functional core, one operator per decoder branch); CoSsdoScen plays conforming download clients against it as deterministic dialogues (expedited / segmented / block, size announced or not, any fill of the last segment, one lost segment per block with retransmission, partial writes) "
        "for integers and domains of 1..4000 bytes at the real block size 127. TLC checks on every dialogue that the confirmed object equals payload ++ untouched tail and no other object changed, and prints the dialogue with the predicted responses; all dialogues are replayed on the C code "
        "(decoded responses, storage changes of every object at every step, object dump after the confirmation, segmented read-back).",
   note=MC_NOTE, technique="TLA+ reference model, scenario enumeration by TLC, dialogues replayed against the C code", ref="DESIGN.md section 8, C02"),
 "C03": dict(
   text="Same reference server, upload side: conforming clients upload integers, strings (1..890 bytes) and domains (1..4000 bytes) expedited / segmented / by block with block sizes 1,2,3,7,64,127, acknowledge plans (all, none, first k, changing block size between blocks) over several blocks; "
        "TLC checks that the assembled bytes equal the object and the object is unchanged, and every dialogue is replayed on the C code comparing sequence numbers, toggle bits, last flags, unused-byte counts, announced sizes and data.",
   note=MC_NOTE, technique="TLA+ reference model, scenario enumeration by TLC, dialogues replayed against the C code", ref="DESIGN.md section 8, C03"),
 "C04": dict(
   text="CoSsdoGen drives the reference server with an alphabet of request-frame classes derived from the decoder's case analysis in every reachable protocol state (TLC: exhaustive over control state x letter); invariants on the reference: one response per request except the two silent cases, "
        "a positive initiate response concerns the named object, a refused initiate changes nothing. Every edge (plus a state-exposing probe) and random walks are replayed on the H0 build variant of the C code (3 segments per block) comparing response count, decoded verdict / abort code / multiplexer and every storage change.",
   note=MC_NOTE + " Reactions the property leaves open (client-abort acknowledgement, frames outside the open transfer) are not compared; comparison resumes after the next client abort.",
   technique="TLA+/TLC model checking + edge-cover behaviours replayed against the C code", ref="DESIGN.md section 8, C04"),
 "C05": dict(
   text="Invariant on the reference in every reachable state: client abort followed by fresh conforming transfers (segmented download + read-back, expedited write/read, two-block block upload) succeeds with the right data (AG EF idle as a state invariant, thanks to the functional core). "
        "On the C code: every edge of the alphabet model, pumped self-loops and random walks, each followed by that probe - once behind a client abort and once behind an NMT reset communication - with fresh payload patterns so that left-over data is visible.",
   note=MC_NOTE, technique="TLA+/TLC probe invariant + edge-cover x probe behaviours replayed against the C code", ref="DESIGN.md section 8, C05"),
 "C09": dict(
   text="CoNode models the NMT mode, the per-mode service mask and the dispatch cascade of CONodeProcess; TLC checks on every transition of the bounded model: CiA 301 transitions only by commands for this node / all nodes or by the application, exactly one boot-up per entry to PRE-OPERATIONAL from initialisation, "
        "services react only in permitted states, an unclaimed frame reaches the application once without any transmission, LSS frames are never passed on. Every edge plus a probe (one frame per service, reset communication, ticks) and random walks are replayed on the C code comparing mode, callbacks and all frames.",
   note=MC_NOTE + " Timers are abstract countdowns (assume/guarantee with C07/C08).", technique="TLA+/TLC model checking + edge-cover behaviours replayed against the C code", ref="DESIGN.md section 8, C09"),
 "C10": dict(
   text="Same node model with the heartbeat-producer alphabet (ticks, NMT commands incl. both resets, SDO/API writes of 1017h, consumer and TPDO activity); invariant: a frame with the current state code is emitted on a tick iff the reference countdown expires on it in a state after boot-up; writes restart, zero stops. "
        "Edges + 9-tick probe and walks replayed with per-tick comparison of all emitted frames.",
   note=MC_NOTE + " Timers are abstract countdowns (assume/guarantee with C07/C08).", technique="TLA+/TLC model checking + edge-cover behaviours replayed against the C code", ref="DESIGN.md section 8, C10"),
 "C11": dict(
   text="Heartbeat consumer entries as independent records (node, time, active, countdown, last state, event counter); TLC checks events exactly on expiry per monitored node, chain well-formedness (armed implies active, no node monitored twice); the SDO write rules (duplicate refused with 0604 0043h, time 0 deactivates exactly the written entry, re-targeting cancels the old monitoring) are the reference the C code is compared with on every edge of the two-entry model, "
        "with a 21-step probe (heartbeats of all nodes, ticks, queries) and a 600-tick saturation run.",
   note=MC_NOTE + " Timers are abstract countdowns (assume/guarantee with C07/C08).", technique="TLA+/TLC model checking + edge-cover behaviours replayed against the C code", ref="DESIGN.md section 8, C11"),
 "C15": dict(
   text="CoEmcy keeps only the set of active errors and the list of recorded activations; error register and error count are derived from the active set exactly as the property defines them. TLC checks one frame per real transition (none for a silent reset, an invalid 1014h or a forbidden NMT state) over all histories of set/clear/reset/1003h/1014h/NMT letters for a 4-error table with class sharing; "
        "every edge plus a probe (register, count, state of each error, full history read, one more activation, loud reset) and random walks with a 5-error table and depth 3 are replayed: frames with code / register / manufacturer bytes, storage change of 1001h, COEmcyCnt/COEmcyGet, SDO reads of 1003h, abort code of a non-zero write.",
   note=MC_NOTE, technique="TLA+/TLC model checking + edge-cover behaviours replayed against the C code", ref="DESIGN.md section 8, C15"),
 "C18": dict(
   text="CoLss has one operator per LSS service function incl. the shared sequence counter; TLC checks over all request sequences of the alphabet (146k states in the thorough tier): configuration / inquiry / store act in configuration state only, at most one answer per request repeating the command specifier, waiting->configuration only by switch-global or a complete matching selective sequence, "
        "only node ids 1..127/255 and defined bit rates are ever configured. Every edge + probe (complete the selective / identify sequence, switch to configuration, inquire all, store, non-configured query, reset communication, boot-up identifier, inquire node id) and walks are replayed comparing all frames on 7E4h, COLssStore arguments, COLssLoad calls, the boot-up identifier, and that no LSS frame reaches the application callback.",
   note=MC_NOTE, technique="TLA+/TLC model checking + edge-cover behaviours replayed against the C code", ref="DESIGN.md section 8, C18"),
 "C17": dict(
   text="CoPara models RAM and NVM images, the group table, the 'all groups' fan-out of sub-index 1, load by reset type at initialisation / reset node / reset communication, power cycles and an NVM driver whose k-th next call returns a short count. TLC checks on every transition: a store writes exactly the RAM bytes of the addressed enabled groups and nothing else, wrong signatures change neither RAM nor NVM, "
        "after a fault-free restart every group equals the stored image, a short count yields an abort or a node error. Edges + probe (error query, RAM and NVM dumps, restart, reset communication) and walks for three layouts are replayed comparing every NVM driver call (offset, length, count, data), RAM changes, COParaDefault calls, SDO verdicts and CONodeGetErr.",
   note=MC_NOTE + " Named deviation InitLoadStopsAtFirstFault: after a faulty load of the reset-node groups at node start the RAM of the other groups is not asserted.",
   technique="TLA+/TLC model checking + edge-cover behaviours (incl. fault injection and restarts) replayed against the C code", ref="DESIGN.md section 8, C17"),
 "C19": dict(
   text="CoCsdo models one SDO client with its per-step timeout and an environment server (conforming, aborting, silent, wrong toggle / command / size / multiplexer). TLC checks on every transition: the completion callback comes exactly once per accepted request, a busy client refuses, an idle client has nothing armed, a timeout sends the abort frame. "
        "Edges + probe (state, timer pool occupancy, ticks beyond every timeout, buffer dump, a second transfer with a longer timeout that a stale timer would abort, a third transfer without timeout) and walks are replayed, plus complete conforming dialogues of 255..2000 bytes; compared: request / segment frames with size, toggle, last marking and data, callback code, user buffer content, API return class, free timer slots.",
   note=MC_NOTE, technique="TLA+/TLC model checking + edge-cover behaviours replayed against the C code", ref="DESIGN.md section 8, C19"),
 "C12": dict(
   text="CoPdo keeps stored and activated PDO configuration apart and models TPDO transmission with inhibit / event countdowns, the pending flag, object-change triggers and SYNC counting. TLC checks: PDO frames only in OPERATIONAL for valid TPDOs, no transmission inside a running inhibit time, activated mappings <= 8 bytes. "
        "Edges + 22-step probe (ticks across inhibit and event time, trigger, object change, three SYNCs, leave and re-enter OPERATIONAL) and walks for an event-driven TPDO (inhibit 2, event 3 ticks) next to a type-2 synchronous TPDO and an RPDO are replayed with per-tick comparison of all frames (identifier, DLC, little-endian data) and COPdoTransmit calls.",
   note=MC_NOTE + " Named deviations (not asserted): first event period after activation is staggered by the PDO number; explicit trigger of a synchronous TPDO; a running inhibit time restarts when 18xxh:5 is written. Alphabets keep inhibit and event expiry off the same tick.",
   technique="TLA+/TLC model checking + edge-cover behaviours replayed against the C code", ref="DESIGN.md section 8, C12"),
 "C13": dict(
   text="Same model, RPDO side: mapping tables with dummy entries, asynchronous and synchronous RPDOs, first-match identifier lookup, buffered application at the next SYNC exactly once. TLC checks that objects change only in OPERATIONAL; the C code is compared on every edge (three RPDOs: a/dummy8/w asynchronous, b/dummy16/l synchronous, two 32-bit dummies; frames, near-miss identifiers, SYNC, NMT changes, local writes) "
        "through storage changes of every application object at every step plus a read-back probe.",
   note=MC_NOTE, technique="TLA+/TLC model checking + edge-cover behaviours replayed against the C code", ref="DESIGN.md section 8, C13"),
 "C14": dict(
   text="Write rules of 14xxh/16xxh/18xxh/1Axxh as operators on the stored configuration (valid->valid refused, RTR / extended refused, type / count / entries only while invalid, entries only while count is 0, entry must name an existing mappable object with matching access, count <= 8 entries / 8 bytes over resolvable entries). "
        "TLC checks as invariant that the stored configuration is always activatable and every activated mapping resolves and is <= 8 bytes. Edges (TPDO and RPDO alphabets separately) + probe (read back every parameter, re-enter OPERATIONAL, trigger, RPDO frame, near-miss) replayed: SDO verdict and abort code per write, stored values after refusal, behaviour after activation.",
   note=MC_NOTE, technique="TLA+/TLC model checking + edge-cover behaviours replayed against the C code", ref="DESIGN.md section 8, C14"),
 "C16": dict(
   text="SYNC part of CoPdo: recognition iff identifier = stored CAN-ID in PRE-OPERATIONAL/OPERATIONAL, each SYNC advances synchronous PDOs once, producer countdown with period 1006h/1000 ticks gated by the NMT state, 1005h/1006h write rules (start, stop, re-time, identifier change refused while producing, unresolvable period refused with the old value kept, a later valid write accepted). "
        "Edges + probe (read back both objects, ticks, SYNC and near-miss, reconfigure and start the producer, ticks) and walks replayed with per-tick comparison of produced SYNC frames, SDO verdicts, the type-1 TPDO frames and synchronous RPDO effects.",
   note=MC_NOTE + " Periods above 6 553 500 us (16-bit argument of COTmrGetTicks) are outside the alphabet.", technique="TLA+/TLC model checking + edge-cover behaviours replayed against the C code", ref="DESIGN.md section 8, C16"),
 "C20": dict(
   text="In four component models (NMT/heartbeat/consumers/application timers, PDO/SYNC, SDO client, EMCY) the reset operator is written as the sequence of sub-operations of CONmtReset and TLC checks in every reachable state that its result equals FreshFrom(current dictionary values) with application values and application timers untouched. "
        "Behaviours H ; reset communication | reset node ; probe, with H covering every edge of each bounded model plus walks, are replayed: after the reset the free timer slots, mode, heartbeat timing, consumer monitoring from the first heartbeat, SYNC production / consumption, silent PDOs until OPERATIONAL, an idle and usable SDO client and cleared errors are compared with the fresh-start prediction. SDO servers and LSS are covered by the reset probes of C05 / C18.",
   note=MC_NOTE + " Composition is per component (assume/guarantee): cross-component interference through the reset is visible only via the shared timer pool occupancy, which every component probe observes.",
   technique="TLA+/TLC invariant reset = fresh start + edge-cover x reset-probe behaviours replayed against the C code", ref="DESIGN.md section 8, C20"),
 "C01": dict(
   level="exploration",
   text="A TLA+ model does not observe memory: here the specification (CoChaos) is the systematic history generator - TLC simulation over ~4000 event classes derived from every decoder's case analysis (both SDO servers, NMT, SYNC, PDO, EMCY, heartbeat, all LSS services, SDO client answers, random frames, DLC 0..8, ticks, split service/process, driver faults, out-of-range API arguments) - and the deciding oracle is instrumentation of the real code: "
        "ASan/UBSan with exact-size heap blocks for every region handed to the stack, CONodeFatalError, a watchdog per behaviour and a frame-flood limit, on a full dictionary and variants lacking optional groups, for CO_SSDO_N = 1/2 and the H0 variant, with pumped events. All other checks run under the same sanitizers and report crashes under their own property, which is where the defects named in the property text were found and fixed.",
   note="Trusted: sanitizers, harness. Exploration only: no exhaustiveness claim over 2^72 frames; in-struct overruns that stay inside CO_NODE are invisible to the sanitizers and are owned by the behavioural checks. UBSan's alignment check is off (the statement does not list alignment; CO_SDO_BUF_BYTE is odd, so the second server's buffer slice is misaligned for 16/32-bit stores on strict-alignment CPUs - noted in DESIGN.md).",
   technique="TLC-generated histories (explicit TLA+ alphabet model) replayed under ASan/UBSan/watchdog", ref="DESIGN.md section 8, C01"),
}
