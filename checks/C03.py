"""C03 -- an SDO upload delivers exactly the object's bytes for any acknowledge pattern (CoSsdo / CoSsdoScen)."""
import common, vlib, sdo_common

def run(ctx):
    import sdo_scen
    sdo_scen.run(ctx, "ul")
