"""C03 -- an SDO upload delivers exactly the object's bytes for any acknowledge pattern (CoSsdo / CoSsdoScen)."""
import common, vlib, sdo_common
VARIANTS = {"default": (), "scen_n1": (), "n2": ("CO_SSDO_N=2",)}

def run(ctx):
    import sdo_scen
    sdo_scen.run(ctx, "ul")
