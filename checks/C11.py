"""C11 -- heartbeat consumer (CoNode / CoNodeGen)."""
import node_check

def run(ctx):
    ctx.assumptions += [
        "two consumer entries (1016h:1 = node 10 / 2 ms, 1016h:2 unused), nodes {10,11,12}, times {0,2,3} ms, heartbeat states {5,127, undefined 9}; SDO writes of every (entry, node, time), queries, ticks",
        "event counter bounded by 3 in the exhaustive model (saturation at 255 is reached by the pumping behaviours)",
        "times are whole ticks (1 kHz)",
    ]
    node_check.run(ctx, "C11", genq="C11_genq.cfg", quick_edges=15000, walks=(150, 8000))
    pump(ctx)
    # the consumers next to every other service and timer of the node (product model CoFull)
    import full_check
    full_check.run(ctx, 400 if ctx.tier == "quick" else 6000)

def pump(ctx):
    """255 saturation: scenarios evaluated by TLC on the reference (CoNodeGen!EmitPump): first heartbeat, k in
    {1, 3, 254..257, 300, 511, 512, 600} periods of silence, then the counter is read twice"""
    import node_common, vlib
    r = vlib.run_tlc("MCNode", "C11_pump.cfg", workers=1, timeout=600)
    behs = vlib.records_to_behaviours(r["out"])
    if len(behs) != 10:
        raise vlib.Infra("C11 pump scenarios: expected 10 behaviours, got %d (%s)" % (len(behs), r["tail"]))
    ctx.mc_runs.append(dict(module="MCNode", cfg="C11_pump.cfg", mode="scenario-evaluation", behaviours=len(behs)))
    ctx.replay(behs, node_common.make_preamble(node_check.cfgfix), node_check.observe, ordered=node_check.tick_unordered, label="saturation")
