"""C11 -- heartbeat consumer (CoNode / CoNodeGen)."""
import node_check

def run(ctx):
    ctx.assumptions += [
        "two consumer entries (1016h:1 = node 10 / 2 ms, 1016h:2 unused), nodes {10,11,12}, times {0,2,3} ms, heartbeat states {5,127, undefined 9}; SDO writes of every (entry, node, time), queries, ticks",
        "event counter bounded by 3 in the exhaustive model (saturation at 255 is reached by the pumping behaviours)",
        "times are whole ticks (1 kHz)",
    ]
    node_check.run(ctx, "C11", genq="C11_genq.cfg", quick_edges=15000, walks=(150, 8000))
    pump(ctx)

def pump(ctx):
    """255 saturation: 300 periods of silence, then the counter is read (and reads 0 afterwards)"""
    import node_common
    from vlib import Beh
    steps = [dict(e=["rx", 1802, 1, 5, 0, 0, 0, 0, 0, 0, 0], x=[["cb", "hbchange", 10, 3]])]
    for i in range(600):
        steps.append(dict(e=["tick"], x=[["cb", "hbevent", 10]] if i % 2 == 1 else []))
    steps.append(dict(e=["hb_events", 10], x=[["ret", 255]]))
    steps.append(dict(e=["hb_events", 10], x=[["ret", 0]]))
    b = Beh(dict(n=5, hb=0, hc=[[10, 2], [0, 0]]), steps, 0)
    ctx.replay([b], node_common.make_preamble(node_check.cfgfix), node_check.observe, ordered=True, label="saturation")
