"""common driver of the CoPdo-based checks (C12, C13, C14, C16)"""
import common, node_common, node_check

OBJ = [("a", 0x2100, 0x0F, 1), ("b", 0x2101, 0x0F, 1), ("w", 0x2102, 0x07, 2), ("l", 0x2103, 0x07, 4), ("r", 0x2104, 0x06, 1), ("n", 0x2105, 0x03, 1),
       ("W", 0x2106, 0x0F, 2), ("L", 0x2107, 0x0F, 4)]

def val32(b):
    return b[0] | (b[1] << 8) | (b[2] << 16) | (b[3] << 24)

def fix(cfg):
    tp = []
    for c in cfg["tc"]:
        cid = c["id"] | (0x40000000 if c["rtr"] else 0) | (0x80000000 if c["off"] else 0)
        tp.append([cid, c["type"], c["inh"], c["evt"], [val32(m) for m in c["m"]], c["n"]])
    rp = []
    for c in cfg["rc"]:
        cid = c["id"] | (0x80000000 if c["off"] else 0)
        rp.append([cid, c["type"], [val32(m) for m in c["m"]], c["n"]])
    sid, gen, cyc = cfg["sync"][:3]
    hb = cfg["sync"][3] if len(cfg["sync"]) > 3 else 0
    objs = []
    for (name, idx, flags, size), v in zip(OBJ, cfg["v"]):
        objs.append([idx, 0, flags, {1: 0, 2: 1, 4: 2}[size]] + list(v))
    return dict(tpdo=tp, rpdo=rp, sync=[sid | (0x40000000 if gen else 0), cyc], objs=objs, hb=hb, hc=[], mapslots=4)

def observe(it):
    if it[0] == "tx":
        return True
    if it[0] == "cb":
        return it[1] in ("pdotx", "pdorx", "canrx", "modechg")
    if it[0] == "chg":
        return 0x2100 <= it[1] <= 0x21FF
    return it[0] in ("ok", "err", "ret", "acts")

def run(ctx, pids, quick_edges=14000, walks=(60, 2500), genq=True):
    q = ctx.tier == "quick"
    pre = node_common.make_preamble(fix)
    for pid in pids:
        ctx.mc("MCPdo", "%s_mc.cfg" % pid, timeout=2500)
        import os, vlib
        cfgq = "%s_genq.cfg" % pid
        cfgname = cfgq if (q and os.path.exists(os.path.join(vlib.SPEC, cfgq))) else "%s_gen.cfg" % pid
        behs = ctx.gen_edges("MCPdo", cfgname, timeout=3000)
        if q:
            behs = common.thin(behs, quick_edges if pid == pids[0] else min(quick_edges, 6000), ctx.seed)
        ctx.replay(behs, pre, observe, ordered=node_check.tick_unordered, label="edges_" + pid)
        w = ctx.gen_walks("MCPdo", "%s_walk.cfg" % pid, num=walks[0] if q else walks[1], depth=45, timeout=2500)
        ctx.replay(w, pre, observe, ordered=node_check.tick_unordered, label="walks_" + pid)
        node_check.node_id_variant(ctx, "MCPdo", pid, pre, observe, node_check.tick_unordered, walks, 45, 3000)
