"""common driver of the CoPdo-based checks (C12, C13, C14, C16)"""
import common, node_common, node_check

OBJ = [("a", 0x2100, 0x0F, 1), ("b", 0x2101, 0x0F, 1), ("w", 0x2102, 0x07, 2), ("l", 0x2103, 0x07, 4), ("r", 0x2104, 0x06, 1), ("n", 0x2105, 0x03, 1),
       ("W", 0x2106, 0x0F, 2), ("L", 0x2107, 0x0F, 4)]

def val32(b):
    return b[0] | (b[1] << 8) | (b[2] << 16) | (b[3] << 24)

def fix(cfg):
    tp = []
    for c in cfg["tc"]:
        cid = c["id"] | (0x40000000 if c["rtr"] else 0) | (0x80000000 if c["off"] else 0)
        tp.append([cid, c["type"], c["inh"], c["evt"], [val32(m) for m in c["m"]], c["n"]])
    rp = []
    for c in cfg["rc"]:
        cid = c["id"] | (0x80000000 if c["off"] else 0)
        rp.append([cid, c["type"], [val32(m) for m in c["m"]], c["n"]])
    sid, gen, cyc = cfg["sync"][:3]
    hb = cfg["sync"][3] if len(cfg["sync"]) > 3 else 0
    objs = []
    for (name, idx, flags, size), v in zip(OBJ, cfg["v"]):
        objs.append([idx, 0, flags, {1: 0, 2: 1, 4: 2}[size]] + list(v))
    return dict(tpdo=tp, rpdo=rp, sync=[sid | (0x40000000 if gen else 0), cyc], objs=objs, hb=hb, hc=[], mapslots=4,
                rshift=cfg.get("rshift", 0), tshift=cfg.get("tshift", 0))


def shifted(behs, rshift, tshift):
    """the same behaviours with the PDOs in higher slots: SDO frames / responses naming 14xxh/16xxh (18xxh/1Axxh) get their index
    raised by rshift (tshift), application triggers name the shifted TPDO; everything else (identifiers, data, timing) is unchanged"""
    import copy
    from vlib import Beh

    def fix_bytes(lst, pos):
        if len(lst) > pos + 1 and isinstance(lst[pos], int) and isinstance(lst[pos + 1], int):
            if lst[pos + 1] in (0x14, 0x16):
                lst[pos] += rshift
            elif lst[pos + 1] in (0x18, 0x1A):
                lst[pos] += tshift
    out = []
    for b in behs:
        steps = copy.deepcopy(b.steps)
        for st in steps:
            e = st["e"]
            if e[0] == "rx" and len(e) >= 7 and 0x600 < e[1] < 0x680:
                fix_bytes(e, 4)
            elif e[0] == "tpdo_trig":
                e[1] += tshift
            for it in st["x"]:
                if it and it[0] == "tx" and len(it) >= 7 and 0x580 < it[1] < 0x600:
                    fix_bytes(it, 4)
        out.append(Beh(dict(b.cfg, rshift=rshift, tshift=tshift), steps, b.nprefix, "shift"))
    return out


# builds with unequal numbers of PDOs; the PDOs under test sit in the highest slots of the larger side
UNEQUAL = {"r4t2": ("CO_RPDO_N=4", "CO_TPDO_N=2"), "r2t4": ("CO_RPDO_N=2", "CO_TPDO_N=4")}
# configuration -> (NT, NR, event timers in use); the first event period depends on the slot number (TpdoInitialStagger), so
# configurations with event timers are not replayed with shifted TPDOs
SHAPE = {"C13": (1, 3, False), "C14T": (1, 1, False), "C14R": (1, 1, False), "C16": (1, 1, False)}

def observe(it):
    if it[0] == "tx":
        return True
    if it[0] == "cb":
        return it[1] in ("pdotx", "pdorx", "canrx", "modechg")
    if it[0] == "chg":
        return 0x2100 <= it[1] <= 0x21FF
    return it[0] in ("ok", "err", "ret", "acts")

def run(ctx, pids, quick_edges=14000, walks=(60, 2500), genq=True, secondary=6000, shift_n=2500):
    q = ctx.tier == "quick"
    pre = node_common.make_preamble(fix)
    for pid in pids:
        ctx.mc("MCPdo", "%s_mc.cfg" % pid, timeout=2500)
        import os, vlib
        cfgq = "%s_genq.cfg" % pid
        cfgname = cfgq if (q and os.path.exists(os.path.join(vlib.SPEC, cfgq))) else "%s_gen.cfg" % pid
        behs = ctx.gen_edges("MCPdo", cfgname, timeout=3000)
        if q:
            behs = common.thin(behs, quick_edges if pid == pids[0] else min(quick_edges, secondary), ctx.seed)
        ctx.replay(behs, pre, observe, ordered=node_check.tick_unordered, label="edges_" + pid)
        if pid in SHAPE:
            nt, nr, _ = SHAPE[pid]
            sub = common.thin(behs, shift_n if q else 40000, ctx.seed + 1)
            if nt <= 2:
                ctx.replay(shifted(sub, 4 - nr, 0), pre, observe, variant="r4t2", defines=UNEQUAL["r4t2"], ordered=node_check.tick_unordered, label="edges_%s_r4t2" % pid)
            if nr <= 2:
                ctx.replay(shifted(sub, 0, 4 - nt), pre, observe, variant="r2t4", defines=UNEQUAL["r2t4"], ordered=node_check.tick_unordered, label="edges_%s_r2t4" % pid)
        w = ctx.gen_walks("MCPdo", "%s_walk.cfg" % pid, num=walks[0] if q else walks[1], depth=45, timeout=2500)
        ctx.replay(w, pre, observe, ordered=node_check.tick_unordered, label="walks_" + pid)
        node_check.node_id_variant(ctx, "MCPdo", pid, pre, observe, node_check.tick_unordered, walks, 45, 3000)
