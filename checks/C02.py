"""C02 -- a confirmed SDO download leaves exactly the client's bytes in the object (CoSsdo / CoSsdoScen)."""
import common, vlib, sdo_common
VARIANTS = {"default": (), "scen_n1": (), "n2": ("CO_SSDO_N=2",)}

def run(ctx):
    import sdo_scen
    sdo_scen.run(ctx, "dl")
