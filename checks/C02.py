"""C02 -- a confirmed SDO download leaves exactly the client's bytes in the object (CoSsdo / CoSsdoScen)."""
import common, vlib, sdo_common
VARIANTS = {"default": (), "scen_n1": (), "n2": ("CO_SSDO_N=2",)}

def run(ctx):
    import sdo_scen
    sdo_scen.run(ctx, "dl")
    # direction code -> spec: recorded dialogues of a PRNG client (random objects, sizes, block sizes, acknowledges,
    # deviations; real block size) validated by TLC against CoSsdo (CoSsdoTrace)
    import sdo_trace
    sdo_trace.run(ctx, 700 if ctx.tier == "quick" else 25000, ndlg=8)
    # the same with one client per server on a CO_SSDO_N = 2 build, frames interleaved (independence of the servers)
    sdo_trace.run(ctx, 500 if ctx.tier == "quick" else 15000, ndlg=10, nsrv=2)
