"""direction code -> spec for the SDO server (C02-C05, SDO part of C09): a PRNG client plays conforming and deviating
dialogues against the real server (objects, sizes, block sizes, acknowledges, payload, deviations all random; real block
size 127), the recorded request / response / storage-change trace is validated by TLC against CoSsdoTrace (= CoSsdo's
Step as the only oracle).  The frames do not come from the model, so this reaches inputs no alphabet of the generating
direction contains."""
import json, os, random
from concurrent.futures import ThreadPoolExecutor
import vlib, sdo_common
from vlib import Beh

NODE = 1
RX = 0x600 + NODE


def dom(n):
    return [(i * 13 + 5) & 255 for i in range(n)]


def O(idx, sub, r, w, kind, data, abort=()):
    return dict(idx=idx, sub=sub, r=r, w=w, kind=kind, data=list(data), abort=list(abort))


TDICT = [# the SDO client's COB-ID entries, typed CO_TSDO_ID as in the repository's own test application (the type covers 1200h..12FFh:
         # "00h..7fh server; 80h..ffh client").  Only values with bit 31 set are written (b31: switching a channel off is always accepted;
         # valid -> valid would be refused by the type); the servers must not notice
         dict(O(0x1280, 1, True, True, "int", [0x00, 0x06, 0, 0]), htype=7, b31=True), dict(O(0x1280, 2, True, True, "int", [0x80, 0x05, 0, 0]), htype=7, b31=True),
         O(0x1280, 3, True, True, "int", [9]),
         O(0x2000, 0, True, True, "int", [1, 2, 3, 4]), O(0x2001, 0, True, False, "int", [9, 8, 7, 6]), O(0x2002, 0, False, True, "int", [0, 0, 0, 0]),
         O(0x2003, 0, True, True, "int", [5, 6]), O(0x2004, 0, True, True, "int", [17]),
         O(0x2010, 1, True, True, "dom", dom(9)), O(0x2010, 2, True, True, "dom", dom(30)), O(0x2010, 3, True, True, "dom", dom(300)),
         O(0x2010, 4, True, True, "dom", dom(1000)), O(0x2010, 5, True, True, "dom", dom(5)), O(0x2010, 6, True, True, "dom", dom(14)),
         O(0x2010, 7, True, True, "dom", dom(889)), O(0x2010, 8, True, True, "dom", dom(890)),
         O(0x2020, 1, True, False, "str", [97, 98, 99]), O(0x2020, 2, True, False, "str", list(range(65, 75))), O(0x2020, 3, True, False, "str", [48 + (i % 40) for i in range(40)]),
         O(0x2030, 0, True, True, "app", [5, 6, 7, 8], [49, 0, 9, 6]),
         # objects far away in the index space (network variables A000h.., the last index): the dictionary spans more than 8000h
         O(0xA100, 0, True, True, "int", [1, 1, 1, 1]), O(0xA100, 1, True, False, "int", [2, 2]), O(0xA580, 1, True, True, "dom", dom(20)),
         O(0xFFFE, 254, True, True, "int", [7]),
         # constants and node-id relative entries of every width (read-only: the reference holds what a client reads = stored + node id)
         dict(O(0x2040, 1, True, False, "int", [0x40 + NODE]), hflags=0xC0, stored=[0x40]),
         dict(O(0x2040, 2, True, False, "int", [0x34 + NODE, 0x12]), hflags=0xC0, stored=[0x34, 0x12]),
         dict(O(0x2040, 3, True, False, "int", [0x78 + NODE, 0x56, 0x34, 0x12]), hflags=0xC0, stored=[0x78, 0x56, 0x34, 0x12]),
         dict(O(0x2040, 4, True, False, "int", [0xF0 + NODE]), hflags=0x40, stored=[0xF0]),
         dict(O(0x2040, 5, True, False, "int", [0x10 + NODE, 0x20]), hflags=0x40, stored=[0x10, 0x20]),
         dict(O(0x2040, 6, True, False, "int", [9]), hflags=0x80, stored=[9]),
         # WRITABLE node-id relative entries of every width ("store written value minus node id"): the reference holds the value a
         # client reads; a dump shows the raw storage and is converted (raw + node id) before it goes into the trace
         dict(O(0x2041, 1, True, True, "int", [0x21]), hflags=0x40, stored=[0x21 - NODE], nid=True),
         dict(O(0x2041, 2, True, True, "int", [0x00, 0x31]), hflags=0x40, stored=[(0x3100 - NODE) & 255, (0x3100 - NODE) >> 8], nid=True),
         dict(O(0x2041, 3, True, True, "int", [0x80, 0x01, 0x00, 0x00]), hflags=0x40, stored=[0x80 - NODE, 0x01, 0x00, 0x00], nid=True)]
NID_OBJS = {(o["idx"], o["sub"]) for o in TDICT if o.get("nid")}
TDICT.sort(key=lambda o: (o["idx"], o["sub"]))          # the dictionary must be sorted
MISSING = [(0x2000, 1), (0x3000, 0), (0x0FFF, 0), (0x2010, 9), (0x2010, 0), (0x2021, 0), (0xFFFF, 255), (0xA100, 2), (0xA101, 0), (0x9FFF, 0), (0xFFFE, 255)]


def le(v, n):
    return [(v >> (8 * i)) & 255 for i in range(n)]


class Client:
    """builds one behaviour: a list of events ('rx', frame) / ('dump', idx, sub)"""

    def __init__(self, rnd, weights):
        self.r = rnd
        self.ev = []
        self.w = weights
        self.only = None

    def rx(self, f):
        f = (list(f) + [0] * 8)[:8]
        # objects of the node that are not part of the logged dictionary (1000h, 1001h, 1200h, 1201h: mandatory / server parameters)
        # are never named, or the reference would call them missing (seen once in 25 000 behaviours: a random frame named 1200h:E7h)
        if f[2] in (0x10, 0x12) and f[1] in (0x00, 0x01):
            f[2] = 0x30
        self.ev.append(["rx", RX, 8] + f)

    def dump(self, o):
        if "stored" not in o or o.get("nid"):          # (a dump shows the raw storage)
            self.ev.append(["dump", o["idx"], o["sub"]])

    def target(self, pred=None):
        r = self.r
        if r.random() < 0.12:
            i, s = r.choice(MISSING)
            return None, [i & 255, i >> 8, s]
        c = [o for o in TDICT if pred is None or pred(o)] if r.random() < 0.85 else TDICT
        if self.only:
            c = [o for o in c if self.only(o)] or [o for o in TDICT if self.only(o)]
        o = r.choice(c)
        return o, [o["idx"] & 255, o["idx"] >> 8, o["sub"]]

    def payload(self, n):
        return [self.r.randint(0, 255) for _ in range(n)]

    def value_for(self, o, n):
        """payload of a download to an integer object: random, or - half of the time - one of a few values around the object's
        initial one (the value itself, +- the node id, zero, the node id), so that a value is written again, written over its own
        raw representation, or written next to it (change detection / node-id arithmetic in the integer types)"""
        r = self.r
        if o is not None and o.get("b31"):
            return (self.payload(n)[:3] + [0x80 | r.randint(0, 127)])[:n] if n == 4 else self.payload(n)
        if o is None or o["kind"] != "int" or n != len(o["data"]) or r.random() < 0.5:
            return self.payload(n)
        v0 = sum(b << (8 * i) for i, b in enumerate(o["data"]))
        v = r.choice([v0, v0 - NODE, v0 + NODE, 0, NODE, v0 ^ (1 << (8 * n - 1)), v0 ^ (1 << (8 * (n - 1)))]) % (1 << (8 * n))
        return le(v, n)

    # ---- dialogues; each returns the object it touched (or None)
    def exp_dl(self):
        r = self.r
        o, m = self.target(lambda o: len(o["data"]) <= 4)
        n = len(o["data"]) if o and len(o["data"]) <= 4 and r.random() < 0.75 else r.randint(1, 4)
        if r.random() < 0.8:
            c = 0x23 | ((4 - n) << 2)
        else:
            c = r.choice([0x22, 0x22 | (r.randint(0, 3) << 2)])
        d4 = self.value_for(o, n) + self.payload(4 - n)
        if o is not None and o.get("b31"):
            d4[3] |= 0x80               # (also when the size is not indicated and all four bytes count)
        self.rx([c] + m + d4)
        if o is not None and o["r"] and r.random() < 0.4:
            self.rx([0x40] + m)                         # read it back at once
        return o

    def seg_dl(self):
        r = self.r
        o, m = self.target(lambda o: o["w"])
        size = len(o["data"]) if o else 9
        L = size if r.random() < 0.5 else r.randint(1, size)
        if r.random() < 0.07:
            L = size + r.randint(1, 3)
        ann = L if r.random() < 0.9 else max(1, L + r.choice([-1, 1]))
        if r.random() < 0.7:
            self.rx([0x21] + m + le(ann, 4))
        else:
            self.rx([0x20] + m + (self.payload(4) if r.random() < 0.3 else [0, 0, 0, 0]))
        data = self.value_for(o, L)
        t = 0
        pos = 0
        stop = r.randint(0, (L + 6) // 7) if r.random() < self.w["abandon"] else -1
        k = 0
        while pos < L:
            if k == stop:
                return o
            n = min(7, L - pos)
            last = pos + n >= L
            dev = r.random()
            if dev < 0.02:
                t ^= 1                                  # wrong toggle
            elif dev < 0.04 and not last:
                n = r.randint(1, 6)                     # short segment that is not the last
            elif dev < 0.05:
                last = not last
            self.rx([(t << 4) | ((7 - n) << 1) | (1 if last else 0)] + data[pos:pos + n] + self.payload(7 - n))
            pos += n
            t ^= 1
            k += 1
        if r.random() < 0.05:
            self.rx([(t << 4) | 1] + self.payload(7))   # a segment after the last one
        return o

    def blk_dl(self):
        r = self.r
        o, m = self.target(lambda o: o["w"] and o["kind"] == "dom")
        size = len(o["data"]) if o else 30
        L = size if r.random() < 0.5 else r.randint(1, size)
        if r.random() < 0.05:
            L = size + r.randint(1, 9)
        c = 0xC0 | (2 if r.random() < 0.8 else 0) | (4 if r.random() < 0.3 else 0)
        self.rx([c] + m + (le(L, 4) if c & 2 else [0, 0, 0, 0]))
        data = self.value_for(o, L)
        nseg = (L + 6) // 7
        done = 0                                        # segments delivered and acknowledged
        stop = r.randint(0, nseg) if r.random() < self.w["abandon"] else -1
        guard = 0
        while done < nseg and guard < 40:
            guard += 1
            inblk = min(127, nseg - done)
            # one block: optionally lose one segment (the rest of the block is ignored by the server)
            lose = r.randint(1, inblk) if r.random() < 0.2 else 0
            dup = r.randint(1, inblk) if r.random() < 0.05 else 0
            for q in range(1, inblk + 1):
                if stop >= 0 and done + q - 1 >= stop:
                    return o
                if q == lose:
                    continue
                seg = data[7 * (done + q - 1):7 * (done + q)]
                last = done + q == nseg
                fr = [q | (0x80 if last else 0)] + seg + self.payload(7 - len(seg))
                self.rx(fr)
                if q == dup:
                    self.rx(fr)
            if lose:
                done += lose - 1                        # acknowledged: the last good sequence number
            else:
                done += inblk
        if done < nseg:
            return o
        n = 7 * nseg - L
        if r.random() < 0.06:
            n = r.randint(0, 7)
        self.rx([0xC1 | (n << 2), r.randint(0, 255), r.randint(0, 255)])
        return o

    def seg_ul(self):
        r = self.r
        o, m = self.target(lambda o: o["r"])
        self.rx([0x40] + m + (self.payload(4) if r.random() < 0.2 else []))
        size = len(o["data"]) if o else 9
        if size <= 4 and r.random() < 0.9:
            return o
        nseg = (size + 6) // 7
        stop = r.randint(0, nseg) if r.random() < self.w["abandon"] else -1
        t = 0
        for k in range(nseg + (1 if r.random() < 0.05 else 0)):
            if k == stop:
                return o
            if r.random() < 0.03:
                t ^= 1
            self.rx([0x60 | (t << 4)] + (self.payload(7) if r.random() < 0.1 else []))
            t ^= 1
        return o

    def blk_ul(self):
        r = self.r
        o, m = self.target(lambda o: o["r"])
        bs = r.choice([1, 2, 3, 7, 20, 126, 127]) if r.random() < 0.6 else r.randint(1, 127)
        if r.random() < 0.05:
            bs = r.choice([0, 128, 200, 255])
        self.rx([0xA0 | (4 if r.random() < 0.3 else 0)] + m + [bs, r.randint(0, 255)])
        if r.random() < 0.05:
            return o
        self.rx([0xA3])
        size = len(o["data"]) if (o and o["r"]) else 9
        pos = 0
        guard = 0
        stop = r.randint(0, 6) if r.random() < self.w["abandon"] else -1
        while guard < 60:
            guard += 1
            if guard - 1 == stop:
                return o
            sent = min(max(1, min(bs, 127)), (size - pos + 6) // 7)
            dev = r.random()
            ack = sent
            if dev < 0.25:
                ack = r.randint(0, sent)
            elif dev < 0.28:
                ack = sent + r.randint(1, 3)
            nbs = bs if r.random() < 0.5 else r.randint(1, 127)
            if r.random() < 0.03:
                nbs = r.choice([0, 128, 255])
            self.rx([0xA2, ack, nbs])
            pos = min(size, pos + 7 * ack)
            if ack > sent or not (1 <= nbs <= 127) and not (pos >= size and ack == sent):
                return o
            bs = nbs
            if pos >= size and ack == sent:
                break
        if r.random() < 0.9:
            self.rx([0xA1])
        return o

    def noise(self):
        r = self.r
        k = r.random()
        if k < 0.3:
            self.rx([0x80, 0, 0, 0, 0, 0, 4, 5])
        elif k < 0.6:
            self.rx([r.choice([0xE0, 0x41, 0x90, 0xA4, 0xC3, 0xA3, 0xA1, 0xA2, 0x60, 0x70, 0x00, 0x11, 0x0F, 0xC1, 0xC5, 0x61])] + self.payload(7))
        else:
            self.rx(self.payload(8))
        return None

    def behaviour(self, ndlg):
        r = self.r
        ops = [("exp_dl", self.exp_dl), ("seg_dl", self.seg_dl), ("blk_dl", self.blk_dl), ("seg_ul", self.seg_ul), ("blk_ul", self.blk_ul), ("noise", self.noise)]
        wts = [self.w[n] for n, _ in ops]
        for _ in range(ndlg):
            fn = r.choices(ops, wts)[0][1]
            n0 = len(self.ev)
            o = fn()
            if r.random() < 0.25:
                self.rx([0x80, 0, 0, 0, 0, 0, 4, 5])
            elif r.random() < self.w.get("nmtreset", 0.08):
                self.ev.append(["rx", 0, 2, 130, 0, 0, 0, 0, 0, 0, 0])        # NMT reset communication instead of a client abort
            if o is not None and r.random() < 0.7:
                self.dump(o)
            if r.random() < 0.2:
                self.dump(r.choice([o for o in TDICT if not self.only or self.only(o)]))
        for o in TDICT:
            if o["w"] and r.random() < 0.5 and (not self.only or self.only(o)):
                self.dump(o)
        return self.ev


PROFILES = {
    "C02": dict(exp_dl=2, seg_dl=5, blk_dl=5, seg_ul=1, blk_ul=1, noise=0.5, abandon=0.12),
    "C03": dict(exp_dl=1, seg_dl=1, blk_dl=1, seg_ul=5, blk_ul=6, noise=0.5, abandon=0.12),
    "C04": dict(exp_dl=3, seg_dl=3, blk_dl=3, seg_ul=3, blk_ul=3, noise=3, abandon=0.3),
    "C09": dict(exp_dl=2, seg_dl=2, blk_dl=5, seg_ul=2, blk_ul=5, noise=2, abandon=0.2),
    "C05": dict(exp_dl=2, seg_dl=3, blk_dl=3, seg_ul=3, blk_ul=3, noise=2, abandon=0.45, nmtreset=0.25),
    "C20": dict(exp_dl=1, seg_dl=3, blk_dl=4, seg_ul=2, blk_ul=4, noise=1, abandon=0.6, nmtreset=0.5),
}


def dict_line(nsrv=1):
    return json.dumps(dict(e="cfg", nsrv=nsrv, dict=[[o["idx"], o["sub"], int(o["r"]), int(o["w"]), o["kind"], o["data"], o["abort"]] for o in TDICT]))


SRV_RX = {1: RX, 2: 0x610}
SRV_TX = {1: 0x580 + NODE, 2: 0x590}


def run(ctx, nbeh, ndlg=8, nfiles=16, profile=None, nsrv=1):
    """record nbeh behaviours of the real server(s) and validate them with TLC.  nsrv = 2: a CO_SSDO_N = 2 build, one PRNG
    client per server, their frames interleaved at random; the clients work on disjoint halves of the dictionary (two
    transfers to the same object at the same time share the object's own transfer position - a domain has one offset -
    which is a conflict between the clients and not what C02's independence clause is about)"""
    prof = PROFILES[profile or ctx.pid]
    behs = []
    for k in range(nbeh):
        rnd = random.Random(ctx.seed * 1000003 + k * 7919 + int(ctx.pid[1:]) + 31 * nsrv)
        if nsrv == 1:
            ev = Client(rnd, prof).behaviour(ndlg)
        else:
            cl = [Client(rnd, prof), Client(rnd, prof)]
            if True:      # concurrent transfers to the SAME object share the object's transfer position: a client-side conflict, not the servers'
                cl[0].only = lambda o: TDICT.index(o) % 2 == 0
                cl[1].only = lambda o: TDICT.index(o) % 2 == 1
            evs = [cl[0].behaviour(ndlg // 2 + 1), cl[1].behaviour(ndlg // 2 + 1)]
            for e in evs[1]:
                if e[0] == "rx" and e[1] == RX:
                    e[1] = SRV_RX[2]
            ev = []
            while evs[0] or evs[1]:
                w = 0 if (evs[0] and (not evs[1] or rnd.random() < 0.5)) else 1
                # keep runs of frames together now and then (a whole sub-block without interruption)
                for _ in range(rnd.choice([1, 1, 1, 2, 5, 30])):
                    if evs[w]:
                        ev.append(evs[w].pop(0))
        behs.append(Beh(dict(n=NODE, trace=k), [dict(e=e, x=[]) for e in ev], 0))
    base = sdo_common.make_preamble(TDICT, nsrv=nsrv)
    pre = lambda cfg: base(cfg) + ["testabort 49 0 9 6"]       # application abort code of the "app" object (0609 0031h)
    variant = "default" if nsrv == 1 else "n2"
    exe = ctx.exe(variant, () if nsrv == 1 else ("CO_SSDO_N=2",))
    results = vlib.replay(exe, behs, pre, ctx.pid + "_sdotrace")
    tdir = os.path.join(vlib.OUT, "traces", ctx.pid)
    os.makedirs(tdir, exist_ok=True)
    files = []
    nev = 0
    for fi in range(nfiles):
        idxs = list(range(fi, nbeh, nfiles))
        if not idxs:
            continue
        fn = os.path.join(tdir, "sdo_%d.ndjson" % fi)
        linemap = []                # trace line number (1-based) -> (behaviour, step)
        with open(fn, "w") as f:
            f.write(dict_line(nsrv) + "\n")
            linemap.append(None)
            for bi in idxs:
                status, steps = results[bi]
                b = behs[bi]
                if status != "ok":
                    m = vlib.Mismatch(bi, len(steps), "crash:" + status, [], [["died"]], b.steps[min(len(steps), len(b.steps) - 1)]["e"])
                    ctx.violations.append((m, b, pre, variant, "sdo_trace"))
                    continue
                f.write('{"e":"reset"}\n')
                linemap.append((bi, -1))
                for si, (st, obs) in enumerate(zip(b.steps, steps)):
                    e = st["e"]
                    if e[0] == "rx" and e[1] == 0:
                        rec = dict(e="nmtreset")
                    elif e[0] == "rx":
                        srv = 2 if e[1] == SRV_RX[2] else 1
                        rec = dict(e="rx", srv=srv, f=e[3:11], tx=[it[3:11] for it in obs if it[0] == "tx" and it[1] == SRV_TX[srv]],
                                   other=[it for it in obs if it[0] == "tx" and it[1] != SRV_TX[srv]],
                                   chg=[[it[1], it[2]] for it in obs if it[0] == "chg"], app=sum(1 for it in obs if it[0] == "cb" and it[1] == "canrx"))
                        if rec["other"]:
                            rec["app"] += 100       # a frame on a foreign identifier: rejected as well
                        del rec["other"]
                    else:
                        ob = [it for it in obs if it[0] == "obj"]
                        raw = ob[0][3:] if ob else []
                        if raw and (e[1], e[2]) in NID_OBJS:        # node-id relative: the reference holds raw + node id
                            raw = le((sum(b << (8 * i) for i, b in enumerate(raw)) + NODE) % (1 << (8 * len(raw))), len(raw))
                        rec = dict(e="dump", idx=e[1], sub=e[2], data=raw)
                    f.write(json.dumps(rec) + "\n")
                    linemap.append((bi, si))
                    nev += 1
        files.append((fn, linemap))

    def validate(job):
        fn, linemap = job
        last = None
        for attempt in (1, 2):          # a rejection is believed only if an immediate re-run repeats it
            t = vlib.run_tlc("CoSsdoTrace", "Ssdo_trace.cfg", workers=1, env={"TRACE": fn}, timeout=1500, deadlock=True, heap="4g",
                             outfile=os.path.join(vlib.OUT, "tlc", "sdotrace_%s_%s.out" % (ctx.pid, os.path.basename(fn))))
            det = [json.loads(x) for x in vlib.tlc_lines(t["out"], "DET")]
            rej = [json.loads(x) for x in vlib.tlc_lines(t["out"], "REJECT")]
            if t["rc"] == 0 and not t["violation"] and det:
                return (fn, linemap, None, det[-1])
            if not rej and t["rc"] not in (12, 13):
                raise vlib.Infra("TLC failed on trace %s: rc=%s %s" % (fn, t["rc"], t["tail"]))
            last = (rej, t)
        rej, t = last
        return (fn, linemap, rej[-1] if rej else dict(l=0, exp="?"), None)

    with ThreadPoolExecutor(8) as ex:
        res = list(ex.map(validate, files))
    ndet = 0
    nacc = 0
    for fn, linemap, rej, det in res:
        if rej is None:
            ndet += det["nd"]
            nacc += det["n"]
            os.remove(fn)
            continue
        ln = rej["l"]
        bi, si = linemap[ln - 1] if 0 < ln <= len(linemap) and linemap[ln - 1] else (0, 0)
        b = behs[bi]
        status, steps = results[bi]
        obs = steps[si] if 0 <= si < len(steps) else []
        exp = rej["exp"]
        m = vlib.Mismatch(bi, max(si, 0), "trace-rejected", [["model", json.dumps(exp)[:400]]], obs, b.steps[max(si, 0)]["e"])
        ctx.violations.append((m, b, pre, variant, "sdo_trace"))
    ctx.traces_validated += nbeh
    ctx.steps += nev
    ctx.mc_runs.append(dict(mode="trace-validation", module="CoSsdoTrace", servers=nsrv, traces=len(res), behaviours=nbeh, events=nev, determined_requests_compared=ndet))
    ctx.extra["recorded_trace_events"] = ctx.extra.get("recorded_trace_events", 0) + nev
    ctx.extra["recorded_requests_with_determined_response"] = ctx.extra.get("recorded_requests_with_determined_response", 0) + ndet
    ctx.checkpoint()
    if nacc and ndet < nacc // 4:
        raise vlib.Infra("sdo trace validation is nearly vacuous: %d of %d events compared" % (ndet, nev))
    return nev, ndet
